#!/bin/bash
# benignverify.sh <Cxx> <A|B> : confirm a delivered behaviour-preserving change in its scratch worktree:
#   patch applies, existing suite passes with it, demo passes with it and without it.
ID=$1; X=$2; D=${BENIGNROOT:-/tmp/benign}-$ID
cd $D || exit 2
git checkout -q -- src 2>/dev/null; rm -rf tests
if ! git apply OUT/$X.patch.diff 2>/dev/null; then echo "$ID $X patch-does-not-apply"; exit 0; fi
export CARGO_NET_OFFLINE=true
S=$(cargo test --offline --target-dir $D/target 2>&1 | grep -E "^test result" | head -1)
case "$S" in *"ok. 291 passed"*) suite=ok;; *) suite="FAIL($S)";; esac
mkdir -p tests; cp OUT/$X.demo.rs tests/demo.rs
if cargo test --offline --target-dir $D/target --test demo >/dev/null 2>&1; then dw=passes; else dw=FAILS; fi
git checkout -q -- src
if cargo test --offline --target-dir $D/target --test demo >/dev/null 2>&1; then dwo=passes; else dwo=FAILS; fi
rm -rf tests
echo "$ID $X suite=$suite demo_with=$dw demo_without=$dwo"
