#!/bin/bash
# scratchmatrix.sh <patch>... : apply each patch to the scratch worktree and run EVERY property's quick
# check against it (PUSHR_SRC); prints one line per patch with the checks that did not exit 0.
W=${SCRATCH_TREE:-/tmp/pristine}
cd /verif
for P in "$@"; do
  git -C $W checkout -q -- .
  if ! git -C $W apply "$P"; then echo "$P apply-failed"; continue; fi
  BAD=""
  for p in C01 C02 C03 C04 C05 C06 C07 C08 C09 C10 C11 C12 C13 C14 C15 C16 C17 C18 C19 C20; do
    OUT=$(PUSHR_SRC=$W PV_TARGET_DIR=/verif/harness/target-scratch ./check $p quick 2>&1); CODE=$?
    if [ $CODE != 0 ]; then BAD="$BAD $p(exit $CODE: $(echo "$OUT" | grep -E '^violation:|^INCONCLUSIVE|^check:' | head -1 | cut -c1-220))"; fi
  done
  git -C $W checkout -q -- .
  echo "$P :${BAD:- all 20 quiet}"
done
git -C /verif checkout -- evidence/
