#!/bin/bash
# seedregress.sh : run every kept seeded change against its property's quick check again (through /repo)
cd /verif
for d in seeded/C*/; do
  id=$(basename $d); prop=${id%%-*}
  r=$(tools/seedcheck.sh $prop /verif/$d/patch.diff quick 2>&1 | tail -1 | cut -c1-200)
  echo "$id ${r#* }"
done
