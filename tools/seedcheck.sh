#!/bin/bash
# seedcheck.sh <Cxx> <patch> [tier] : apply a seeded change to /repo, run the property's check, undo.
ID=$1; P=$2; TIER=${3:-quick}
cd /verif
if ! git -C /repo apply "$P"; then echo "$ID $(basename $P) apply-failed"; exit 0; fi
cp evidence/$ID.json /tmp/.evidence-$ID.keep 2>/dev/null
OUT=$(./check $ID $TIER 2>&1); CODE=$?
git -C /repo checkout -- . 
# the evidence written under a seeded change must never be committed: put the previous file back
[ -f /tmp/.evidence-$ID.keep ] && mv /tmp/.evidence-$ID.keep evidence/$ID.json
SIG=$(echo "$OUT" | grep -E "^violation:" | head -2 | cut -c1-260 | tr '\n' ' ')
echo "$ID $(basename $P) exit=$CODE $SIG"
