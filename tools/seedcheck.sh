#!/bin/bash
# seedcheck.sh <Cxx> <patch> [tier] : apply a seeded change to /repo, run the property's check, undo.
ID=$1; P=$2; TIER=${3:-quick}
cd /verif
if ! git -C /repo apply "$P"; then echo "$ID $(basename $P) apply-failed"; exit 0; fi
OUT=$(./check $ID $TIER 2>&1); CODE=$?
git -C /repo checkout -- . 
SIG=$(echo "$OUT" | grep -E "^violation:" | head -2 | cut -c1-260 | tr '\n' ' ')
echo "$ID $(basename $P) exit=$CODE $SIG"
