#!/bin/bash
# scratchcheck.sh <Cxx> <patch> [tier] : like seedcheck.sh, but the change is applied to the scratch
# worktree /tmp/pristine (git worktree of /repo HEAD) and the check is pointed at it with PUSHR_SRC,
# so that /repo stays untouched (pre-screening while something else builds from /repo).
ID=$1; P=$2; TIER=${3:-quick}; W=${SCRATCH_TREE:-/tmp/pristine}
cd /verif
git -C $W checkout -q -- . 
if ! git -C $W apply "$P"; then echo "$ID $(basename $P) apply-failed"; exit 0; fi
cp evidence/$ID.json /tmp/.evidence-$ID.keep 2>/dev/null
OUT=$(PUSHR_SRC=$W PV_TARGET_DIR=/verif/harness/target-scratch ./check $ID $TIER 2>&1); CODE=$?
git -C $W checkout -q -- .
[ -f /tmp/.evidence-$ID.keep ] && mv /tmp/.evidence-$ID.keep evidence/$ID.json
SIG=$(echo "$OUT" | grep -E "^violation:|^INCONCLUSIVE|^check:" | head -2 | cut -c1-260 | tr '\n' ' ')
echo "$ID $(basename $P) exit=$CODE $SIG"
