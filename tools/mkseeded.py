#!/usr/bin/env python3
"""Collect the confirmed seeded changes from the scratch worktrees into /verif/seeded/<Cxx>-<X>/.
Inputs: /tmp/seed-Cxx/OUT/{A,B}.{patch.diff,demo.rs,meta.txt}, /tmp/seedverify*.log, /tmp/seedcheck*.log"""
import json, os, re, shutil, sys, glob
ROOT='/verif/seeded'
ROUND=os.environ.get('SEEDROUND','')
SRCROOT=os.environ.get('SEEDROOT','/tmp/seed')
verify={}
for f in glob.glob(os.environ.get('VERIFYGLOB','/tmp/seedverify*.log')):
    for l in open(f):
        m=re.match(r'(C\d+) ([AB]) suite=(\S+) demo_with=(\S+) demo_without=(\S+)',l)
        if m: verify[(m.group(1),m.group(2))]=m.groups()[2:]
checks={}
for f in sorted(glob.glob(os.environ.get('CHECKGLOB','/tmp/seedcheck*.log'))):
    for l in open(f):
        m=re.match(r'(C\d+) ([AB])\.patch\.diff exit=(\d+) ?(.*)',l)
        if m: checks.setdefault((m.group(1),m.group(2)),[]).append((os.path.basename(f),int(m.group(3)),m.group(4).strip()))
index=[]
for (cid,x),v in sorted(verify.items()):
    if v!=('ok','fails','passes'):
        print('skip (not confirmed):',cid,x,v); continue
    src=f'{SRCROOT}-{cid}/OUT'
    d=f'{ROOT}/{cid}-{x}{ROUND}'
    os.makedirs(d,exist_ok=True)
    shutil.copy(f'{src}/{x}.patch.diff',f'{d}/patch.diff')
    shutil.copy(f'{src}/{x}.demo.rs',f'{d}/demo.rs')
    meta_txt=open(f'{src}/{x}.meta.txt').read()
    runs=checks.get((cid,x),[])
    caught=[r for r in runs if r[1]==1]
    meta={
      'property':cid,
      'change':x,
      'origin':'written by an independent sub-agent that saw only the property text and its own scratch worktree',
      'needs_to_manifest_and_author_notes':meta_txt,
      'confirmed':{'existing_suite_with_change':'291 passed','demo_with_change':'fails','demo_without_change':'passes',
                   'how':f'tools/seedverify.sh {cid} {x} in the scratch worktree {SRCROOT}-{cid} (removed afterwards)'},
      'check_runs':[{'log':r[0],'command':f'git -C /repo apply seeded/{cid}-{x}{ROUND}/patch.diff; ./check {cid} <tier>; git -C /repo checkout -- .','exit':r[1],'first_violations':r[2]} for r in runs],
      'caught_by_check': bool(caught),
    }
    json.dump(meta,open(f'{d}/meta.json','w'),indent=1)
    index.append((cid,x+ROUND,bool(caught),caught[0][2][:160] if caught else (runs[-1][2][:160] if runs else 'not run')))
with open(f'{ROOT}/INDEX{ROUND}.md','w') as f:
    f.write('# Seeded breaking changes'+(' (round '+ROUND+')' if ROUND else '')+'\n\nEach directory holds patch.diff (applies to /repo HEAD), demo.rs (integration test that fails with the change and passes without it) and meta.json.\n\n| change | caught | first violation reported by ./check <Cxx> |\n|---|---|---|\n')
    for cid,x,c,sig in index:
        f.write(f'| {cid}-{x} | {"yes" if c else "NO"} | {sig.replace("|","/")} |\n')
print(len(index),'changes written;', sum(1 for i in index if i[2]),'caught')
