#!/bin/bash
# run every claimed check once per seed; print one line per (check, seed)
cd /verif
SEEDS="${*:-1}"
for s in $SEEDS; do
  for p in $(python3 -c "import json;print(' '.join(c['property_id'] for c in json.load(open('MANIFEST.json'))['checks']))"); do
    start=$(date +%s.%N)
    out=$(VERIF_SEED=$s ./check $p ${TIER:-quick} 2>&1)
    code=$?
    end=$(date +%s.%N)
    printf "%s seed=%s exit=%s wall=%.1fs %s\n" "$p" "$s" "$code" "$(echo "$end - $start" | bc)" "$(echo "$out" | grep -E '^VIOLATION|^INCONCLUSIVE' | head -2 | tr '\n' ' ' | cut -c1-200)"
  done
done
