#!/usr/bin/env python3
"""Regenerates /verif/MANIFEST.json from the table below (keeps the manifest valid at all times)."""
import json, os, sys
ROOT = os.path.dirname(os.path.dirname(os.path.abspath(__file__)))
props = [json.loads(l) for l in open(os.path.join(ROOT, "properties.jsonl"))]
ids = [p["id"] for p in props]

# id -> (technique, level text, level note, design ref)
CLAIMED = {
 "C16": ("model-based PBT: exhaustive short operation sequences + proptest random sequences against a Vec reference model",
         "Every mutator sequence up to length 4 (quick) / 5 (thorough) over two values and all positions 0..len+2 is enumerated with every observer applied at every reached state, and long random sequences (i32 and nested Item elements) are compared step by step with a Vec model: return values and full contents. Exploration, not proof: longer sequences are sampled.",
         "Trusted: the Vec model in harness/src/props/c16.rs (written from the doc comments of stack.rs); raw swap(i,j) excluded (documented as vector indices).",
         "DESIGN.md section 4, C16"),
 "C17": ("model-based PBT: exhaustive + random PushBuffer histories against a bounded VecDeque model; INPUT/OUTPUT instruction sequences lock-step against a reference interpreter",
         "All mutator histories of length 6 (quick) / 8 (thorough) for capacity 1..3 and both buffer kinds, with every observer after every mutator, plus long random histories (capacity 1..5, many wrap-arounds) and random INPUT.*/OUTPUT.* programs over 0..10 messages compared after every step. Exploration: longer histories and larger capacities are sampled.",
         "Trusted: the VecDeque model and the IO part of the reference interpreter (harness/src/refmodel2.rs). Print order is undocumented and compared as a multiset; OUTPUT.WRITE on a full queue is not value-checked.",
         "DESIGN.md section 4, C17"),
 "C04": ("PBT against a reference model of the 41 scalar instructions + dev/release build-profile differential on identical generated cases",
         "Each of the 41 scalar instruction names is executed by name on generated states (boundary x random operand pools, bystanders on every stack) and the complete snapshot is compared with the documented effect; the same deterministic case list is executed by the dev (overflow checks) and release binaries and must agree. Exploration over sampled operands; boundary values are always in the pool.",
         "Trusted: reference table in harness/src/refmodel.rs (written from the doc comments; INTEGER.% follows the unit-test-pinned truncated remainder). Float functions compared within max(4 ulp, 1e-6 rel). BOOLEAN.FROMFLOAT/FROMINTEGER inversion is a listed known finding (pinned by unit tests).",
         "DESIGN.md section 4, C04"),
 "C05": ("exhaustive grid (type x op x depth x index) + proptest random states against one generic position-map reference; multiset conservation invariant",
         "The grid of nine stack types x nine operations x depths 0..8 x boundary indices is enumerated completely with several value variations per cell; random states add arbitrary contents. Every type is compared with the same generic position map on the whole snapshot, plus a multiset conservation invariant. Depths above 8 are only sampled.",
         "Trusted: the generic position map (refmodel::stack_op) and the clamp formula documented in the instruction comments.",
         "DESIGN.md section 4, C05"),
 "C08": ("PBT of CODE list instructions and the Item API against a tree-algebra reference, plus metamorphic relations through the real instructions",
         "Generated code trees (every atom kind, patterns drawn from the tree's own sub-items, indices in [-2S,2S] and extreme) are run through each listed CODE instruction by name and through Item::{size,traverse,insert,contains,container,substitute,equals}; whole snapshots are compared with the pre-order tree algebra, and EXTRACT-after-INSERT, EXTRACT-at-POSITION, DISCREPANCY symmetry/zero and atom conservation are checked through the implementation alone. Exploration over sampled trees up to depth 6 / 40 points.",
         "Trusted: tree algebra in harness/src/refmodel.rs; operand order of SUBST/CONTAINS/MEMBER and NTH's modulus follow the unit tests; listed unspecified corners are not value-compared.",
         "DESIGN.md section 4, C08"),
 "C09": ("enumerated length x length x offset grid with sampled elements + proptest random states against a per-instruction vector reference",
         "For the element-wise operations the complete grid len(second) 0..8 x len(top) 0..8 x offsets -10..10 plus extreme offsets is enumerated with random element values; all other C09 vector instructions run on random states with boundary elements and indices around the vector length. Whole snapshots are compared with the README/comment semantics per instruction name, so a mis-registered name fails under its own name.",
         "Trusted: vector part of harness/src/refmodel2.rs. Size operands are kept <= 4096 (C15 covers magnitudes). Float aggregates compared with 1e-5 relative tolerance; listed unspecified corners not value-compared.",
         "DESIGN.md section 4, C09"),
 "C02": ("differential PBT: PushInterpreter::run against an independent accounting of repeated step() calls over generated programs, step limits and growth caps",
         "Generated RAND-free programs (general, flat unpacking, EXEC.Y loops, DUP/FLUSH mixes) are executed by run() and by our own copy-then-step loop; the outcome must be admissible for the measured completion step e and first over-cap growth step g, the converse implications must hold and the final state must equal the single-stepped state. Limits -1..L and caps {0,1,2,3,5,10,500} with boundary classes (e = limit-1/limit/limit+1, growth = cap / cap+1) measured in the evidence. One wall-clock sub-check for TimeLimitExceeded (slow => inconclusive).",
         "Trusted: the statement-derived oracle in harness/src/props/c02.rs and PushInterpreter::step itself as the unit of the differential (step semantics are C06/C07's subject). Where the statement allows limit or limit+1 executed steps both are accepted.",
         "DESIGN.md section 4, C02"),
 "C03": ("PBT of the parser: arbitrary / token-soup / mutated strings for totality and frame, class-generated token trees for structure",
         "Totality and frame on arbitrary UTF-8, token soup over parens / vector prefixes / multi-byte scalars and single-edit mutations of printed programs, parsed onto empty and populated states; structure on token trees whose leaves are generated by lexical class (ints, floats incl. inf/NaN/out-of-i32, booleans, every registered instruction, names, well-formed and malformed vector literals) rendered with random Unicode whitespace and compared with the EXEC stack read back through the public API.",
         "Trusted: Rust's str::parse::<i32>/<f32> as the definition of integer/float tokens; the expected tree is known by construction. Empty vector literals, unclosed prefix tokens and the tree built from unbalanced input are unspecified. Nesting depth bounded (deep-nesting is a separate probe).",
         "DESIGN.md section 4, C03"),
 "C11": ("round-trip PBT: three printers -> parser, on generated trees and on pushr's own random code generator output",
         "Generated stacks of item trees (lists incl. empty, pool ints, booleans, parser-producible names, every registered instruction; separately with floats incl. non-finite and > 3 decimals) are printed by Item::to_string, PushStack::to_string and CODE.PRINT and parsed back: structural equality (own walker and Item::equals) when float-free, print-parse-print fixpoint and shape equality with floats; plus every tree emitted by random_code_with_size(1..200).",
         "Trusted: the parser as inverse is the subject, nothing else; an independent printer (refmodel::print_item) cross-checks the print format. Vector / INDEX / GRAPH literals and names with blanks are outside the property's language.",
         "DESIGN.md section 4, C11"),
 "C06": ("PBT with a closed-form oracle over a grammar of loop nests / combinator programs (TICK log), single-step reference checks, and lock-step differential against a reference interpreter",
         "Programs generated from a grammar of EXEC.LOOP / INTVECTOR.LOOP / CODE.LOOP nests (depth <= 4) and EXEC.IF, CODE.IF, EXEC.K/S/DUP, CODE.DO/DO* blocks carry numbered TICKs; the observed log (marker, INDEX.CURRENT, top INTEGER) must equal the sequence obtained by evaluating the nest directly, and EXEC / INDEX / INTVECTOR / CODE must be clean afterwards. Each combinator and INDEX instruction is also single-stepped on arbitrary stacks against the documented effect, and random control-flow programs run lock-step against the reference interpreter.",
         "Trusted: the direct evaluator of the loop grammar and the control-flow part of the reference interpreter (harness/src/props/c06.rs, refmodel2.rs). CODE.LOOP's wrong iteration count is a listed known finding (its re-arm list is pinned by a unit test); cases with too few operands are unspecified.",
         "DESIGN.md section 4, C06"),
 "C07": ("model-based PBT: exhaustive short token sequences + random define/use/quote/redefine programs, lock-step against a binding-map reference",
         "Every token sequence up to length 4 (quick) / 6 (thorough) over two names, three literal types, their DEFINEs, NAME.QUOTE and CODE.DEFINITION, plus random programs over all eight defining types with pool values (NaN, empty vectors, nested code), run to completion and compared with the reference (binding map, quote flag, typed stacks) after every step.",
         "Trusted: name semantics of the reference interpreter (refmodel2::ref_step, refmodel::ref_instr DEFINE).",
         "DESIGN.md section 4, C07"),
 "C01": ("fuzz-style PBT: single-instruction sweep over the whole registry with boundary operand profiles + generated and self-generated programs, monitored stepping and run(), crash/abort/hang supervision by a journalled worker process",
         "Every registered instruction is stepped on hundreds (quick) / thousands (thorough) of operand profiles built from the documented footprint (depths around the need, boundary ints/floats/vectors, indices at len-1/len/len+1, live and stale node ids, empty message bodies); program trees over the full registry and programs from pushr's own generator run for <= 400 monitored steps and, when deterministic and inside the resource envelope, through run(). Panics are caught per case; aborts and hangs kill the worker and are confirmed from its journal in a fresh process.",
         "Trusted: the resource envelope of DESIGN.md section 3 (size operands > 4096 clamped, runaway states abandoned, EXEC.CMD spawns only /bin/true). Dev profile only in-process; the release profile is exercised by the C04/C14 differentials.",
         "DESIGN.md section 4, C01"),
 "C10": ("enumerated shortage patterns x random full states against the documented footprint table (frame and no-fabrication invariants)",
         "For every registered instruction every assignment of a too-small depth to every non-empty subset of its operand stacks is enumerated, plus the all-present case and hand-listed failing guards, each on random states in which every stack, queue, graph and the bindings are non-empty; the complete before/after snapshots must satisfy the unfired rule (only operand stacks shrink, nothing gained or changed) or the fired rule (changes confined to the documented footprint).",
         "Trusted: design/footprint.tsv (compiled from the doc comments, cross-checked against the pinned tree) and the hand-listed guard cases in harness/src/props/c10.rs. Which of its own operands an unfired instruction consumes is unspecified.",
         "DESIGN.md section 4, C10"),
 "C12": ("per-draw invariant PBT of the (unseedable) random code generator over a grid of sizes, bounds, instruction lists, binding tables and new-name probabilities",
         "random_code_with_size for every n in 1..64 plus 100, 235, 1034, random_code for every bound 0..40, CODE.RAND over boundary operands x six max-points settings and decompose for k = 1..64, each under 45 settings and many draws; every draw must have the exact/bounded point count and admissible leaves, every first draw is stepped and printed/parsed, and a coverage assertion (every leaf kind, lists) guards against a degenerate generator.",
         "Trusted: nothing beyond Item::size being cross-checked by our own point count. The generator uses thread_rng and cannot be seeded, so replay re-draws under the stored parameters; the coverage assertion has a false-alarm probability < 1e-30.",
         "DESIGN.md section 4, C12"),
 "C13": ("per-draw invariant PBT of the random value generators and RAND instructions over parameter grids incl. invalid parameters; one bounded-false-alarm coverage assertion",
         "random_bool_vector over sizes 0..32/100/1000/negative x 111 sparsities incl. out-of-range, infinite and NaN; random_int_vector / random_float_vector over sizes x bound pairs (equal, reversed, full i32 range) x (mean, deviation) incl. 0, negative, infinite, NaN; the RAND instructions and NAME.RANDBOUNDNAME over operand/configuration tuples. Every draw: length, element range, TRUE count at the documented rounding, no vector for invalid parameters, operands consumed, nothing else touched; every bit position becomes TRUE within 700 draws.",
         "Trusted: the rounding rule of BOOLVECTOR.RAND as stated in its unit test and code comment (two-decimal rounding, truncated product; neighbours accepted near ties). Unseedable generator: replay re-draws; hangs are detected by the supervising parent.",
         "DESIGN.md section 4, C13"),
 "C18": ("model-based PBT: exhaustive short + random Graph API histories against a set/map model; GRAPH.* instruction histories with live/stale ids against the same model",
         "Every Graph API sequence of length 4 (quick) / 5 (thorough) over 37 operations on <= 3 live nodes and random histories up to length 60 with live, removed and never-issued ids; GRAPH.* instruction histories (statement-shaped groups, DUPs followed by mutation, history positions, 100-graph capacity). After every operation: structural invariants, model equality, every snapshot unchanged, diff / PRINT*DIFF empty exactly for equal models, queries as sets.",
         "Trusted: the set/map model in harness/src/props/c18.rs. Node ids are process-wide, so histories resolve symbolic id references (live / stale) at run time; GRAPH.EDGE*HISTORY at position 0 and id order in result vectors are unspecified.",
         "DESIGN.md section 4, C18"),
 "C19": ("PBT of LIST.* and T.ID against a record reference, plus ADD;GET;run round trips lock-step against the reference interpreter",
         "Single-instruction comparison of LIST.ADD/SET/GET/REMOVE/BVAL/IVAL/FVAL and the nine T.ID instructions on labelled stacks with id vectors over valid, non-data and invalid ids, nested records and boundary positions; round-trip programs (id vector literal or built by T.ID + INTVECTOR.FROMINT) are executed lock-step and must restore every stack with the record left in place; atom conservation across LIST.ADD.",
         "Trusted: LIST part of harness/src/refmodel2.rs. LIST.SET on an empty CODE stack / with CODE ids in the vector is unspecified.",
         "DESIGN.md section 4, C19"),
 "C20": ("exhaustive grid enumeration of find_neighbors / decompose_index against a brute-force integer reference with metamorphic relations; PBT of LIST.NEIGHBOR*",
         "For every ntotal 1..64 (quick) / 1..216 (thorough), ndim 1..4 (5), every centre and ten radii (integers and mid-points between lattice distances), plus perfect powers and their neighbours, the result must equal the brute-force neighbour set in the smallest enclosing hypercube and satisfy centre / ascending / symmetry / monotonicity; decompose_index is checked to be a bijection on every hypercube with <= 4096 cells; LIST.NEIGHBOR* run on operand tuples incl. negative, oversized and NaN.",
         "Trusted: integer brute-force reference (refmodel2::neighbours). Radii are chosen away from lattice distances so float rounding of the distance cannot decide membership.",
         "DESIGN.md section 4, C20"),
 "C14": ("differential PBT over schedules: each generated job alone vs. after other jobs vs. concurrently on 2-16 threads vs. the release build vs. the command-line binary; pairwise-distinct node ids under concurrent creation",
         "Deterministically generated RAND-free jobs that stay inside the resource envelope are run alone on a fresh instruction set, after all other jobs on a long-lived one (twice), concurrently on 2/4/8/16 threads in rotated orders (simultaneous activity measured with a barrier), by the release binary, and - terminating programs - by the pushr command-line binary; all final-state digests / printed stacks must agree; 16 threads x 20 000 (quick) node creations through the API and GRAPH.NODE*ADD must yield pairwise distinct ids.",
         "Schedules are sampled by the OS, not enumerated: a race needing a rare interleaving can be missed. Adequate here because all interpreter state is owned by the PushState passed in and the only shared object is one atomic counter; realistic breakages (static caches, thread-locals, non-atomic counter updates) fail on most schedules.",
         "DESIGN.md section 4, C14"),
 "C15": ("exhaustive sweep of INTEGER operand magnitudes over the whole registry measured by a counting allocator + PBT of growth programs with a points monitor; known findings per offending instruction",
         "Every instruction with INTEGER operands is stepped with each operand position set to magnitudes from -2^31 to 2^22 on a fixed small state; bytes requested during the step (counting global allocator, deterministic) must stay within 64 KiB + 8 x state size and must not scale with the operand. Generated EXEC.Y / EXEC.LOOP / EXEC.DUP loops around code-building instructions are single-stepped under the default limits; no step may create a CODE/EXEC item larger than max_points_in_program and larger than every item that existed before. The property does not hold on the current code: 26 listed known findings (one per instruction); anything not listed is a violation.",
         "Magnitudes above 2^22 are extrapolated from measured scaling; time is represented by bytes requested plus the supervising watchdog. The known findings need a new limit/policy in pushr and are recorded, not repaired.",
         "DESIGN.md section 4, C15"),
}

# additions made after the first build (sub-checks that were added later); appended to the texts above
INCTX = " Additionally whole programs over the RAND-free registry on generated states run in lock-step with the reference interpreter (sub-check in-program-context: the operand states are the ones executions reach) and, in the thorough tier, a coverage-guided libFuzzer campaign (target lockstep_ref, same oracle, 10^6 executions) searches for mismatches at the instructions this property owns. Two history-oriented variants run in both tiers: in-program-context-focused (three quarters of the instruction atoms are instructions this property owns, programs twice as long, so an instruction meets the operands its own earlier executions left behind) and related-calls (one or two owned instructions called 4..8 times in a row through one registry instance on states that differ in exactly one operand slot drawn from a small pool; every call is compared with the reference, so a result that depends on an earlier call - a memo keyed on part of the operands, a scratch buffer, a cursor - is a mismatch)."
ADDENDA = {
 "C01": ("; GRAPH.* instruction histories; INPUT/OUTPUT queue histories of a long-lived state; libFuzzer target exec_program (thorough)", " GRAPH.* instruction histories (stacked graphs that share node ids) and INPUT/OUTPUT histories (2..6 segments: the host queues and takes messages, then IO programs run, so the ring cursors wrap and a partly consumed queue is refilled) are executed crash-only; the thorough tier adds a libFuzzer campaign (exec_program)."),
 "C02": ("; run() on custom / never-loaded instruction sets; command-line front end's copy onto CODE", " Further sub-checks: a slow step under a short time limit must end with TimeLimitExceeded; run() equals stepping on never-loaded and hand-registered instruction sets and leaves the caller's set unchanged; the pushr binary's first trace shows CODE = EXEC for multi-item texts; PushState::size() accounting."),
 "C03": ("; libFuzzer target parse_text with a token dictionary (thorough)", " Names that spell an instruction in another letter case, tokens around 255 bytes with multi-byte characters, integers with leading zeros; parsing with an empty registry and again with the full one on the same thread; nesting up to 700 levels compared structurally."),
 "C04": ("; lock-step in program context (generated + libFuzzer lockstep_ref)", INCTX),
 "C05": ("; lock-step in program context (generated + libFuzzer lockstep_ref)", " Stack depths 999..1030 and items above 100 points are part of the grid." + INCTX),
 "C06": ("; lock-step in program context (generated + libFuzzer lockstep_ref)", " Counted EXEC.Y loops are part of the grammar; single steps also run with operands above 100 points and tiny configured limits." + INCTX),
 "C07": ("; parse path; lock-step in program context (generated + libFuzzer lockstep_ref)", " Every generated program is also printed and parsed (names that resemble instructions must come back as names)." + INCTX),
 "C08": ("; lock-step in program context (generated + libFuzzer lockstep_ref)", " Built cases: self-similar SUBST operands, twin chains nested 9..18 levels, floats below the printed precision, signed zeros." + INCTX),
 "C09": ("; lock-step in program context (generated + libFuzzer lockstep_ref)", " The grid also holds lengths 12..100 with 15 offsets." + INCTX),
 "C11": ("; deep and wide programs; registry independence; libFuzzer target roundtrip_text (thorough)", " Combs nested up to 300 levels, lists and top levels of up to 30 000 items, user-registered instruction names, the same text parsed with an empty and then the full registry; thorough: libFuzzer target roundtrip_text (any text s: parse(print(parse s)) = parse s)."),
 "C12": ("", " Instruction lists include a caller's own list (not upper case, unsorted, with a duplicate), judged as supplied; binding tables are renamed per work item."),
 "C13": ("; call histories on one thread", " Also sizes 65 536 / 65 537 / 100 000 and FLOAT.RAND intervals a few ulps wide. Sub-check call-histories: 2..7 generator calls back to back on one thread with parameters from small pools (consecutive calls share one bound and differ in the other); every call of a history must satisfy the per-draw invariants whatever was drawn before it."),
 "C14": ("", " Jobs carry an 8 s interpreter time limit (a job that no longer ends by its step limit ends differently instead of hanging); jobs comparing code nested 50..400 levels expose state left on a thread; single-instruction jobs over the boundary pools; fresh-process reverse-order leg."),
 "C15": ("; CPU time per step; nesting-depth sweep", " Now: magnitudes up to 2^31-1 on three base states (a sweep stops at its first failure), FLOAT operand magnitudes, thread CPU time per step <= 0.4 s, and every instruction with a CODE/EXEC operand on code nested 4..128 levels deep."),
 "C16": ("; deep stacks; extreme positions", " Positions up to usize::MAX, item twins that print alike, and stacks of up to 25 000 (thorough 300 000) items filled by push / push_front / push_vec; one block in four of a random sequence is a bulk block of 4..47 items (longer than the stack it lands on)."),
 "C17": ("; lock-step in program context (generated + libFuzzer lockstep_ref)", " Registered INPUT.* / OUTPUT.* names beyond the documented eight must not drop or reorder the other queue's pending messages." + INCTX),
 "C18": ("", " Weights include values one ulp apart, infinities, NaN and signed zeros; a ReAddEdge operation."),
 "C19": ("; lock-step in program context (generated + libFuzzer lockstep_ref)", " Records hold INDEX literals and non-finite floats." + INCTX),
 "C10": ("", " Guards added later: FLOATVECTOR./ with the zero divisor facing a (signed) zero dividend; GRAPH.EDGE*ADD / SETWEIGHT / GETWEIGHT with one live id of a node that already has edges and one id that names no node, in both operand positions."),
 "C20": ("; large topologies; random-order queries; lock-step in program context", " Lines of up to 300 000 cells, squares / cubes of 100 000 cells and 12 dimensions against the brute-force ball; query sequences in random order on one thread." + INCTX),
}
NOTE_FIX = {
 "C11": "Trusted: the parser as inverse is the subject, nothing else; the concrete print format is not part of the property (a difference from the commented format is only counted). Vector / INDEX / GRAPH literals and names with blanks are outside the property's language.",
 "C15": "Time is the thread CPU time of the step (limit 0.4 s on states of a few dozen cells) plus the supervising watchdog for hangs. The known findings need a new limit/policy in pushr and are recorded, not repaired.",
}
for k, (t, x) in ADDENDA.items():
    tech, text, note, ref = CLAIMED[k]
    CLAIMED[k] = (tech + t, text + x, NOTE_FIX.get(k, note), ref)

PENDING_REASON = "check not built yet in this round (work in progress, see DESIGN.md section 4 for the planned check)"

checks = []
for pid in ids:
    if pid in CLAIMED:
        tech, text, note, ref = CLAIMED[pid]
        checks.append({
            "property_id": pid,
            "quick_cmd": f"./check {pid} quick",
            "thorough_cmd": f"./check {pid} thorough",
            "evidence_file": f"/verif/evidence/{pid}.json",
            "replay_cmd_template": f"./check {pid} --replay {{path}}",
            "engine": "pv",
            "level_claimed": {"category": "exploration", "text": text, "design_ref": ref},
            "level_note": note,
            "technique": tech,
        })
manifest = {
    "version": 1,
    "setup_cmd": "./setup.sh",
    "hooks": {
        "guard": "johker_pushr_verif",
        "enable": "none needed: every check observes pushr through its public API only (no hooks are compiled in); RUSTFLAGS='--cfg johker_pushr_verif' is reserved",
        "baseline_off_cmd": "cd /repo && cargo test --workspace --no-fail-fast --offline",
        "source_commits": [],
        "add_only": True,
    },
    "engines": [
        {"name": "pv", "path": "/verif/harness", "serves_properties": sorted(CLAIMED.keys()),
         "kind_free_text": "Rust binary: proptest strategies + bounded exhaustive enumeration + reference models, path-depends on /repo and is rebuilt from its working tree by ./check"},
    ],
    "checks": checks,
    "notes": "Family: property-based testing and fuzzing. ./check <Cxx> <quick|thorough> rebuilds harness/ against /repo's working tree and runs pv; evidence in /verif/evidence/<Cxx>.json; known findings and repaired defects in /verif/known-findings.txt; seeded breaking changes in /verif/seeded/.",
    "not_applicable": [{"property_id": pid, "reason": PENDING_REASON} for pid in ids if pid not in CLAIMED],
}
json.dump(manifest, open(os.path.join(ROOT, "MANIFEST.json"), "w"), indent=1)
print("claimed:", sorted(CLAIMED.keys()))
