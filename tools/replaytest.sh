#!/bin/bash
# replaytest.sh <Cxx> <seeded-dir> : end-to-end test of the replay path of a property's check:
#   apply the seeded change, run the quick check, replay every reported file (must exit 1),
#   undo the change, replay again (must exit 0 unless the failure needs hidden state).
ID=$1; D=$2
cd /verif
git -C /repo apply "$D/patch.diff" || { echo "$ID $(basename $D) apply-failed"; exit 0; }
cp evidence/$ID.json /tmp/.evidence-$ID.keep 2>/dev/null
OUT=$(./check $ID quick 2>&1)
[ -f /tmp/.evidence-$ID.keep ] && mv /tmp/.evidence-$ID.keep evidence/$ID.json
FILES=$(echo "$OUT" | grep -E "^VIOLATION" | sed 's/.*replay=//' | head -3)
R1=""; for f in $FILES; do ./check $ID --replay "$f" >/dev/null 2>&1; R1="$R1 $?"; done
git -C /repo checkout -- .
R0=""; for f in $FILES; do ./check $ID --replay "$f" >/dev/null 2>&1; R0="$R0 $?"; done
echo "$ID $(basename $D) files=$(echo $FILES | wc -w) replay_with_change=[$R1 ] replay_without=[$R0 ]"
