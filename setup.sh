#!/bin/bash
# MANIFEST.setup_cmd: offline build of the whole framework from files on disk.
set -u
ROOT="$(cd "$(dirname "$0")" && pwd)"
export CARGO_NET_OFFLINE=true
cd "$ROOT/harness" || exit 1
sed "s#@PUSHR_SRC@#${PUSHR_SRC:-/repo}#" Cargo.toml.in > Cargo.toml
cargo build --offline -q --target-dir "$ROOT/harness/target" || exit 1
cargo build --offline -q --release --target-dir "$ROOT/harness/target-rel" || exit 1
(cd "${PUSHR_SRC:-/repo}" && cargo build --offline -q --bin pushr --target-dir "$ROOT/harness/target-cli") || exit 1
mkdir -p "$ROOT/evidence" "$ROOT/replays"
echo "setup ok"
