//! Reference semantics, part 2: control flow (E), names (F), code algebra (G), vectors (H),
//! IO (J), LIST (L), topology (M). See /verif/design/reference-semantics.md.

use crate::refmodel::*;
use crate::spec::*;

fn fired(s: StateSpec) -> Expect {
    Expect::exact(s)
}
fn instr(n: &str) -> ItemSpec {
    ItemSpec::Instr(n.to_string())
}
fn list(v: Vec<ItemSpec>) -> ItemSpec {
    ItemSpec::List(v)
}
fn wild_int() -> Wild {
    Wild { int_top_any: true, ..Default::default() }
}

/// n-th (0-based, pre-order from the top/first element) literal of a kind inside an item
pub fn nth_val<'a>(t: &'a ItemSpec, n: i64, pred: &dyn Fn(&ItemSpec) -> bool) -> Option<&'a ItemSpec> {
    if n < 0 {
        return None;
    }
    t.preorder().into_iter().filter(|x| pred(x)).nth(n as usize)
}

// ---- topology (section M)
pub fn edge_len(ntotal: usize, ndim: usize) -> Option<usize> {
    // least e >= 1 with e^ndim >= ntotal, computed in integers
    let mut e: usize = 1;
    loop {
        let mut p: u128 = 1;
        let mut over = false;
        for _ in 0..ndim {
            p = p.saturating_mul(e as u128);
            if p >= ntotal as u128 {
                over = true;
                break;
            }
        }
        if over || p >= ntotal as u128 {
            return Some(e);
        }
        e += 1;
        if e > ntotal.max(2) {
            return None;
        }
    }
}
pub fn coords(i: usize, e: usize, ndim: usize) -> Option<Vec<usize>> {
    let mut out = vec![0; ndim];
    let mut cp: u128 = 1;
    for k in 0..ndim {
        if cp > usize::MAX as u128 {
            return None;
        }
        out[k] = ((i as u128 / cp) % e as u128) as usize;
        cp = cp.checked_mul(e as u128)?;
    }
    Some(out)
}
/// brute-force neighbourhood in integers; r2 = squared radius as f64
pub fn neighbours(ntotal: usize, ndim: usize, centre: usize, radius: f64) -> Option<Vec<i32>> {
    let e = edge_len(ntotal, ndim)?;
    let c = coords(centre, e, ndim)?;
    let r2 = radius * radius;
    let mut out = vec![];
    for j in 0..ntotal {
        let cj = coords(j, e, ndim)?;
        let mut d2: u128 = 0;
        for k in 0..ndim {
            let d = if cj[k] > c[k] { cj[k] - c[k] } else { c[k] - cj[k] } as u128;
            d2 += d * d;
        }
        if (d2 as f64) <= r2 {
            out.push(j as i32);
        }
    }
    Some(out)
}

pub fn ref_instr2(s0: &StateSpec, name: &str) -> Expect {
    let mut s = s0.clone();
    match name {
        // ------------------------------------------------------------------ control flow (E)
        "EXEC.IF" => {
            if s.exec.len() < 2 {
                return Expect::Unspecified("EXEC.IF with fewer than two EXEC items");
            }
            if s.bools.is_empty() {
                return Expect::Unspecified("EXEC.IF without BOOLEAN (docs: NOOP, code consumes its code operands)");
            }
            let e0 = s.exec.remove(0);
            let e1 = s.exec.remove(0);
            let b = s.bools.remove(0);
            s.exec.insert(0, if b { e0 } else { e1 });
            fired(s)
        }
        "EXEC.K" => {
            if s.exec.len() >= 2 {
                s.exec.remove(1);
                fired(s)
            } else {
                Expect::Unspecified("EXEC.K with fewer than two items")
            }
        }
        "EXEC.S" => {
            if s.exec.len() >= 3 {
                let a = s.exec.remove(0);
                let b = s.exec.remove(0);
                let c = s.exec.remove(0);
                s.exec.insert(0, list(vec![b, c.clone()]));
                s.exec.insert(0, c);
                s.exec.insert(0, a);
                fired(s)
            } else {
                Expect::Unspecified("EXEC.S with fewer than three items")
            }
        }
        "EXEC.Y" => {
            if !s.exec.is_empty() {
                let e0 = s.exec[0].clone();
                s.exec.insert(1, list(vec![instr("EXEC.Y"), e0]));
            }
            fired(s)
        }
        "EXEC.LOOP" | "CODE.LOOP" => {
            let from_code = name == "CODE.LOOP";
            let body = if from_code {
                if s.code.is_empty() {
                    return fired(s);
                }
                s.code.remove(0)
            } else {
                if s.exec.is_empty() {
                    return fired(s);
                }
                s.exec.remove(0)
            };
            if s.index.is_empty() {
                return Expect::Unspecified("LOOP without an INDEX");
            }
            let (cur, dst) = s.index[0];
            if cur < dst {
                s.exec.insert(0, list(vec![instr("INDEX.INCREASE"), instr(name), body.clone()]));
                s.exec.insert(0, body);
            } else {
                s.index.remove(0);
            }
            fired(s)
        }
        "CODE.QUOTE" => {
            if !s.exec.is_empty() {
                let e = s.exec.remove(0);
                s.code.insert(0, e);
            }
            fired(s)
        }
        "CODE.DO" => {
            if !s.code.is_empty() {
                s.exec.insert(0, instr("CODE.POP"));
                s.exec.insert(0, s.code[0].clone());
            }
            fired(s)
        }
        "CODE.DO*" => {
            if !s.code.is_empty() {
                s.exec.insert(0, s.code[0].clone());
                s.exec.insert(0, instr("CODE.POP"));
            }
            fired(s)
        }
        "CODE.IF" => {
            if s.code.len() < 2 {
                return Expect::Unspecified("CODE.IF with fewer than two CODE items");
            }
            if s.bools.is_empty() {
                return Expect::Unspecified("CODE.IF without BOOLEAN");
            }
            let c0 = s.code.remove(0);
            let c1 = s.code.remove(0);
            let b = s.bools.remove(0);
            s.exec.insert(0, if b { c1 } else { c0 });
            fired(s)
        }
        "INTVECTOR.LOOP" => {
            if s.ivecs.is_empty() {
                return fired(s);
            }
            if s.exec.is_empty() {
                return Expect::Unspecified("INTVECTOR.LOOP without body");
            }
            let mut v = s.ivecs.remove(0);
            let body = s.exec.remove(0);
            if !v.is_empty() {
                let first = v.remove(0);
                s.exec.insert(0, list(vec![ItemSpec::IVec(v), instr("INTVECTOR.LOOP"), body.clone()]));
                s.exec.insert(0, body);
                s.ints.insert(0, first);
            }
            fired(s)
        }
        "INDEX.DEFINE" => {
            if !s.ints.is_empty() {
                let n = s.ints.remove(0);
                s.index.insert(0, (0, n.max(0) as usize));
            }
            fired(s)
        }
        "INDEX.CURRENT" => {
            if !s.index.is_empty() {
                s.ints.insert(0, s.index[0].0 as i32);
            }
            fired(s)
        }
        "INDEX.DESTINATION" => {
            if !s.index.is_empty() {
                s.ints.insert(0, s.index[0].1 as i32);
            }
            fired(s)
        }
        "INDEX.INCREASE" => {
            if !s.index.is_empty() && s.index[0].0 < s.index[0].1 {
                s.index[0].0 += 1;
            }
            fired(s)
        }
        "INDEX.POP" => {
            if !s.index.is_empty() {
                s.index.remove(0);
            }
            fired(s)
        }
        "INDEX.FLUSH" => {
            s.index.clear();
            fired(s)
        }
        // ------------------------------------------------------------------ names (F)
        "CODE.DEFINITION" => {
            if s.names.is_empty() {
                return fired(s);
            }
            let n = s.names.remove(0);
            if let Some(v) = s.bindings.get(&n) {
                s.code.insert(0, v.clone());
            }
            fired(s)
        }
        // ------------------------------------------------------------------ code algebra (G)
        "CODE.SIZE" => {
            if !s.code.is_empty() {
                s.ints.insert(0, s.code[0].points() as i32);
            }
            fired(s)
        }
        "CODE.EXTRACT" => {
            if s.ints.is_empty() {
                return fired(s);
            }
            let i = s.ints.remove(0);
            if s.code.is_empty() {
                return fired(s);
            }
            let pts = s.code[0].points() as i64;
            let pre: Vec<ItemSpec> = s.code[0].preorder().into_iter().cloned().collect();
            if (i as i64) >= 0 && (i as i64) < pts {
                s.code.insert(0, pre[i as usize].clone());
                fired(s)
            } else {
                // comment: |i| mod S ; code: rem_euclid
                let a = (i as i64).rem_euclid(pts) as usize;
                let b = ((i as i64).abs() % pts) as usize;
                let mut s2 = s.clone();
                s.code.insert(0, pre[a].clone());
                s2.code.insert(0, pre[b].clone());
                Expect::either(s, s2)
            }
        }
        "CODE.INSERT" => {
            if s.ints.is_empty() {
                return fired(s);
            }
            let i = s.ints.remove(0);
            if s.code.len() < 2 {
                return fired(s);
            }
            let pts = s.code[0].points() as i64;
            if (i as i64) > 0 && (i as i64) < pts {
                let new = replace_at(&s.code[0], i as usize, &s.code[1].clone());
                s.code[0] = new;
                fired(s)
            } else if (i as i64) >= pts {
                // pinned: no change; also accept the normalised replacement
                let k = (i as i64).rem_euclid(pts) as usize;
                let mut s2 = s.clone();
                s2.code[0] = replace_at(&s.code[0], k, &s.code[1].clone());
                Expect::either(s, s2)
            } else {
                Expect::Unspecified("CODE.INSERT with index <= 0")
            }
        }
        "CODE.POSITION" => {
            if s.code.len() < 2 {
                return fired(s);
            }
            let pre: Vec<ItemSpec> = s.code[0].preorder().into_iter().cloned().collect();
            let hits: Vec<usize> = (0..pre.len()).filter(|j| pre[*j] == s.code[1]).collect();
            if hits.is_empty() {
                s.ints.insert(0, -1);
                fired(s)
            } else {
                Expect::OneOf(
                    hits.iter()
                        .map(|h| {
                            let mut a = s.clone();
                            a.ints.insert(0, *h as i32);
                            Alt { state: a, wild: Wild::default() }
                        })
                        .collect(),
                )
            }
        }
        "CODE.CONTAINER" => {
            if s.code.len() < 2 {
                return fired(s);
            }
            let c = container(&s.code[0], &s.code[1]).unwrap_or(ItemSpec::List(vec![]));
            s.code.insert(0, c);
            fired(s)
        }
        "CODE.SUBST" => {
            if s.code.len() < 3 {
                return fired(s);
            }
            let target = s.code.remove(0);
            let with = s.code.remove(0);
            let pattern = s.code.remove(0);
            s.code.insert(0, subst(&target, &pattern, &with));
            fired(s)
        }
        "CODE.CAR" => {
            if s.code.is_empty() {
                return fired(s);
            }
            match s.code[0].clone() {
                ItemSpec::List(v) => {
                    if v.is_empty() {
                        Expect::Unspecified("CODE.CAR of ( )")
                    } else {
                        s.code[0] = v[0].clone();
                        fired(s)
                    }
                }
                _ => fired(s),
            }
        }
        "CODE.CDR" => {
            if s.code.is_empty() {
                return fired(s);
            }
            match s.code[0].clone() {
                ItemSpec::List(v) => {
                    s.code[0] = ItemSpec::List(v.iter().skip(1).cloned().collect());
                    fired(s)
                }
                _ => {
                    // atom popped; nothing other than ( ) may be pushed
                    s.code.remove(0);
                    let mut s2 = s.clone();
                    s2.code.insert(0, ItemSpec::List(vec![]));
                    Expect::either(s, s2)
                }
            }
        }
        "CODE.CONS" => {
            if s.code.len() < 2 {
                return fired(s);
            }
            let c0 = s.code.remove(0);
            let c1 = s.code.remove(0);
            let mut v = vec![c1];
            match c0 {
                ItemSpec::List(x) => v.extend(x),
                x => v.push(x),
            }
            s.code.insert(0, ItemSpec::List(v));
            fired(s)
        }
        "CODE.LIST" => {
            if s.code.len() >= 2 {
                let l = list(vec![s.code[0].clone(), s.code[1].clone()]);
                s.code.insert(0, l);
            }
            fired(s)
        }
        "CODE.LENGTH" => {
            if !s.code.is_empty() {
                let n = match &s.code[0] {
                    ItemSpec::List(v) => v.len(),
                    _ => 1,
                };
                s.ints.insert(0, n as i32);
            }
            fired(s)
        }
        "CODE.NTH" => {
            if s.ints.is_empty() {
                return fired(s);
            }
            let i = s.ints.remove(0);
            if s.code.is_empty() {
                return fired(s);
            }
            let l: Vec<ItemSpec> = match &s.code[0] {
                ItemSpec::List(v) => v.clone(),
                _ => vec![],
            };
            let k = (i as i64).rem_euclid(l.len() as i64 + 1) as usize;
            if k >= 1 {
                s.code.insert(0, l[k - 1].clone());
                fired(s)
            } else {
                Expect::Unspecified("CODE.NTH with index = 0 mod (len+1)")
            }
        }
        "CODE.NULL" => {
            if !s.code.is_empty() {
                let b = matches!(&s.code[0], ItemSpec::List(v) if v.is_empty());
                s.bools.insert(0, b);
            }
            fired(s)
        }
        "CODE.ATOM" => {
            if !s.code.is_empty() {
                let b = !s.code[0].is_list();
                s.bools.insert(0, b);
            }
            fired(s)
        }
        "CODE.CONTAINS" => {
            if s.code.len() >= 2 {
                let b = occurs(&s.code[0], &s.code[1]);
                s.bools.insert(0, b);
            }
            fired(s)
        }
        "CODE.MEMBER" => {
            if s.code.len() >= 2 {
                let b = occurs(&s.code[1], &s.code[0]);
                s.bools.insert(0, b);
            }
            fired(s)
        }
        "CODE.=" => {
            if s.code.len() >= 2 {
                let b = s.code[0] == s.code[1];
                s.bools.insert(0, b);
            }
            fired(s)
        }
        "EXEC.=" => {
            if s.exec.len() >= 2 {
                let b = s.exec[0] == s.exec[1];
                s.bools.insert(0, b);
            }
            fired(s)
        }
        "CODE.DISCREPANCY" => {
            if s.code.len() >= 2 {
                if s.code[0] == s.code[1] {
                    s.ints.insert(0, 0);
                    fired(s)
                } else {
                    // n > 0, value checked by the C08 metamorphic relations
                    s.ints.insert(0, 1);
                    Expect::wild(s, wild_int())
                }
            } else {
                fired(s)
            }
        }
        "CODE.PRINT" => {
            if !s.code.is_empty() {
                let txt = s.code.iter().map(print_item).collect::<Vec<_>>().join(" ");
                s.names.insert(0, txt);
            }
            fired(s)
        }
        // ------------------------------------------------------------------ vectors (H)
        "BOOLVECTOR.AND" | "BOOLVECTOR.OR" => {
            if s.bvecs.len() < 2 || s.ints.is_empty() {
                return Expect::Unspecified("element-wise op with missing operand");
            }
            let top = s.bvecs.remove(0);
            let mut r = s.bvecs.remove(0);
            let o = s.ints.remove(0) as i64;
            for (i, t) in top.iter().enumerate() {
                let j = i as i64 + o;
                if j >= 0 && (j as usize) < r.len() {
                    let j = j as usize;
                    r[j] = if name == "BOOLVECTOR.AND" { r[j] && *t } else { r[j] || *t };
                }
            }
            s.bvecs.insert(0, r);
            fired(s)
        }
        "BOOLVECTOR.NOT" => {
            if s.bvecs.is_empty() || s.ints.is_empty() {
                return Expect::Unspecified("BOOLVECTOR.NOT with missing operand");
            }
            let o = s.ints.remove(0) as i64;
            let n = s.bvecs[0].len() as i64;
            for i in 0..n {
                let j = i + o;
                if j >= 0 && j < n {
                    let j = j as usize;
                    s.bvecs[0][j] = !s.bvecs[0][j];
                }
            }
            fired(s)
        }
        "INTVECTOR.+" | "INTVECTOR.-" | "INTVECTOR.*" | "INTVECTOR./" => {
            if s.ivecs.len() < 2 || s.ints.is_empty() {
                return Expect::Unspecified("element-wise op with missing operand");
            }
            let top = s.ivecs.remove(0);
            let mut r = s.ivecs.remove(0);
            let o = s.ints.remove(0) as i64;
            let mut anyp = vec![];
            let mut zero_div = false;
            for (i, t) in top.iter().enumerate() {
                let j = i as i64 + o;
                if j >= 0 && (j as usize) < r.len() {
                    let j = j as usize;
                    let (a, b) = (r[j] as i64, *t as i64);
                    let v = match name {
                        "INTVECTOR.+" => a + b,
                        "INTVECTOR.-" => a - b,
                        "INTVECTOR.*" => a * b,
                        _ => {
                            if b == 0 {
                                zero_div = true;
                                0
                            } else {
                                a / b
                            }
                        }
                    };
                    if v < i32::MIN as i64 || v > i32::MAX as i64 {
                        anyp.push(j);
                        r[j] = 0;
                    } else {
                        r[j] = v as i32;
                    }
                }
            }
            if zero_div {
                return fired(s);
            }
            s.ivecs.insert(0, r);
            Expect::wild(s, Wild { ivec_top_any: anyp, ..Default::default() })
        }
        "FLOATVECTOR.+" | "FLOATVECTOR.-" | "FLOATVECTOR.*" | "FLOATVECTOR./" => {
            if s.fvecs.len() < 2 || s.ints.is_empty() {
                return Expect::Unspecified("element-wise op with missing operand");
            }
            let top = s.fvecs.remove(0);
            let mut r = s.fvecs.remove(0);
            let o = s.ints.remove(0) as i64;
            let mut zero_div = false;
            for (i, t) in top.iter().enumerate() {
                let j = i as i64 + o;
                if j >= 0 && (j as usize) < r.len() {
                    let j = j as usize;
                    r[j] = match name {
                        "FLOATVECTOR.+" => r[j] + *t,
                        "FLOATVECTOR.-" => r[j] - *t,
                        "FLOATVECTOR.*" => r[j] * *t,
                        _ => {
                            if *t == 0.0 {
                                zero_div = true;
                                r[j]
                            } else {
                                r[j] / *t
                            }
                        }
                    };
                }
            }
            if zero_div {
                return fired(s);
            }
            s.fvecs.insert(0, r);
            fired(s)
        }
        "BOOLVECTOR.GET" | "INTVECTOR.GET" | "FLOATVECTOR.GET" => {
            if s.ints.is_empty() {
                return fired(s);
            }
            let i = s.ints.remove(0);
            match name {
                "BOOLVECTOR.GET" => {
                    if let Some(v) = s.bvecs.get(0) {
                        if !v.is_empty() {
                            let x = v[clamp(i, v.len())];
                            s.bools.insert(0, x);
                        }
                    }
                }
                "INTVECTOR.GET" => {
                    if let Some(v) = s.ivecs.get(0) {
                        if !v.is_empty() {
                            let x = v[clamp(i, v.len())];
                            s.ints.insert(0, x);
                        }
                    }
                }
                _ => {
                    if let Some(v) = s.fvecs.get(0) {
                        if !v.is_empty() {
                            let x = v[clamp(i, v.len())];
                            s.floats.insert(0, x);
                        }
                    }
                }
            }
            fired(s)
        }
        "BOOLVECTOR.SET" => {
            if s.ints.is_empty() {
                return fired(s);
            }
            let i = s.ints.remove(0);
            if s.bools.is_empty() {
                return Expect::Unspecified("SET with the value missing");
            }
            let x = s.bools.remove(0);
            if let Some(v) = s.bvecs.get_mut(0) {
                if !v.is_empty() {
                    let c = clamp(i, v.len());
                    v[c] = x;
                }
            }
            fired(s)
        }
        "INTVECTOR.SET" => {
            if s.ints.is_empty() {
                return fired(s);
            }
            let i = s.ints.remove(0);
            if s.ints.is_empty() {
                return Expect::Unspecified("SET with the value missing");
            }
            let x = s.ints.remove(0);
            if let Some(v) = s.ivecs.get_mut(0) {
                if !v.is_empty() {
                    let c = clamp(i, v.len());
                    v[c] = x;
                }
            }
            fired(s)
        }
        "FLOATVECTOR.SET" => {
            if s.ints.is_empty() {
                return fired(s);
            }
            let i = s.ints.remove(0);
            if s.floats.is_empty() {
                return Expect::Unspecified("SET with the value missing");
            }
            let x = s.floats.remove(0);
            if let Some(v) = s.fvecs.get_mut(0) {
                if !v.is_empty() {
                    let c = clamp(i, v.len());
                    v[c] = x;
                }
            }
            fired(s)
        }
        "BOOLVECTOR.LENGTH" => {
            if let Some(v) = s.bvecs.get(0) {
                let n = v.len() as i32;
                s.ints.insert(0, n);
            }
            fired(s)
        }
        "INTVECTOR.LENGTH" => {
            if let Some(v) = s.ivecs.get(0) {
                let n = v.len() as i32;
                s.ints.insert(0, n);
            }
            fired(s)
        }
        "FLOATVECTOR.LENGTH" => {
            if let Some(v) = s.fvecs.get(0) {
                let n = v.len() as i32;
                s.ints.insert(0, n);
            }
            fired(s)
        }
        "BOOLVECTOR.COUNT" => {
            if let Some(v) = s.bvecs.get(0) {
                let n = v.iter().filter(|x| **x).count() as i32;
                s.ints.insert(0, n);
            }
            fired(s)
        }
        "INTVECTOR.SUM" => {
            if let Some(v) = s.ivecs.get(0) {
                let sum: i64 = v.iter().map(|x| *x as i64).sum();
                // partial sums may overflow even if the total does not: "any" whenever some
                // prefix leaves the i32 range
                let mut acc: i64 = 0;
                let mut over = false;
                for x in v {
                    acc += *x as i64;
                    if acc < i32::MIN as i64 || acc > i32::MAX as i64 {
                        over = true;
                    }
                }
                if over {
                    s.ints.insert(0, 0);
                    return Expect::wild(s, wild_int());
                }
                s.ints.insert(0, sum as i32);
            }
            fired(s)
        }
        "INTVECTOR.MEAN" => {
            if let Some(v) = s.ivecs.get(0) {
                if v.is_empty() {
                    return Expect::Unspecified("MEAN of an empty vector");
                }
                let mut acc: i64 = 0;
                let mut over = false;
                for x in v {
                    acc += *x as i64;
                    if acc < i32::MIN as i64 || acc > i32::MAX as i64 {
                        over = true;
                    }
                }
                if over {
                    return Expect::Unspecified("INTVECTOR.MEAN with an overflowing sum");
                }
                let m = (acc as f64 / v.len() as f64) as f32;
                let tol = (m.abs() * 1e-5).max(1e-6);
                s.floats.insert(0, m);
                return Expect::wild(s, Wild { float_top_tol: Some(tol), ..Default::default() });
            }
            fired(s)
        }
        "FLOATVECTOR.SUM" | "FLOATVECTOR.MEAN" => {
            if let Some(v) = s.fvecs.get(0).cloned() {
                if name == "FLOATVECTOR.MEAN" && v.is_empty() {
                    return Expect::Unspecified("MEAN of an empty vector");
                }
                let sum: f64 = v.iter().map(|x| *x as f64).sum();
                let abs: f64 = v.iter().map(|x| (*x as f64).abs()).sum();
                if !abs.is_finite() || abs > 1e37 {
                    // non-finite or near-overflow: by class only when every element is finite
                    // and the exact sum is far from the f32 range boundary; otherwise unspecified
                    if v.iter().any(|x| x.is_nan()) {
                        s.floats.insert(0, f32::NAN);
                        return fired(s);
                    }
                    return Expect::Unspecified("float aggregate at or beyond the f32 range");
                }
                // f32 accumulation in any order errs by at most (n-1) * 2^-24 * sum|x|
                let rel = (1e-5f64).max(v.len() as f64 * 1.2e-7);
                let (val, tol) = if name == "FLOATVECTOR.SUM" {
                    (sum as f32, (abs * rel) as f32 + 1e-30)
                } else {
                    ((sum / v.len() as f64) as f32, (abs / v.len() as f64 * rel) as f32 + 1e-30)
                };
                s.floats.insert(0, val);
                return Expect::wild(s, Wild { float_top_tol: Some(tol), ..Default::default() });
            }
            fired(s)
        }
        "BOOLVECTOR.ONES" | "BOOLVECTOR.ZEROS" | "INTVECTOR.ONES" | "INTVECTOR.ZEROS" | "FLOATVECTOR.ONES" | "FLOATVECTOR.ZEROS" => {
            if s.ints.is_empty() {
                return fired(s);
            }
            let n = s.ints.remove(0);
            if n == 0 {
                return Expect::Unspecified("ONES/ZEROS 0");
            }
            if n > 0 {
                let one = name.ends_with("ONES");
                let n = n as usize;
                match name.split('.').next().unwrap() {
                    "BOOLVECTOR" => s.bvecs.insert(0, vec![one; n]),
                    "INTVECTOR" => s.ivecs.insert(0, vec![if one { 1 } else { 0 }; n]),
                    _ => s.fvecs.insert(0, vec![if one { 1.0 } else { 0.0 }; n]),
                }
            }
            fired(s)
        }
        "INTVECTOR.EMPTY" => {
            s.ivecs.insert(0, vec![]);
            fired(s)
        }
        "FLOATVECTOR.EMPTY" => {
            s.fvecs.insert(0, vec![]);
            fired(s)
        }
        "BOOLVECTOR.EQUAL" => {
            if s.bvecs.len() >= 2 {
                let b = s.bvecs.remove(0);
                let a = s.bvecs.remove(0);
                s.bools.insert(0, a == b);
            }
            fired(s)
        }
        "INTVECTOR.EQUAL" => {
            if s.ivecs.len() >= 2 {
                let b = s.ivecs.remove(0);
                let a = s.ivecs.remove(0);
                s.bools.insert(0, a == b);
            }
            fired(s)
        }
        "FLOATVECTOR.EQUAL" => {
            if s.fvecs.len() >= 2 {
                let b = s.fvecs.remove(0);
                let a = s.fvecs.remove(0);
                // IEEE equality element-wise (NaN != NaN)
                s.bools.insert(0, a.len() == b.len() && a.iter().zip(&b).all(|(x, y)| x == y));
            }
            fired(s)
        }
        "BOOLVECTOR.ROTATE" => {
            if s.bools.is_empty() {
                return fired(s);
            }
            let x = s.bools.remove(0);
            if let Some(v) = s.bvecs.get_mut(0) {
                if !v.is_empty() {
                    v.remove(0);
                    v.push(x);
                }
            }
            fired(s)
        }
        "INTVECTOR.ROTATE" => {
            if s.ints.is_empty() {
                return fired(s);
            }
            let x = s.ints.remove(0);
            if let Some(v) = s.ivecs.get_mut(0) {
                if !v.is_empty() {
                    v.remove(0);
                    v.push(x);
                }
            }
            fired(s)
        }
        "FLOATVECTOR.ROTATE" => {
            if s.floats.is_empty() {
                return fired(s);
            }
            let x = s.floats.remove(0);
            if let Some(v) = s.fvecs.get_mut(0) {
                if !v.is_empty() {
                    v.remove(0);
                    v.push(x);
                }
            }
            fired(s)
        }
        "BOOLVECTOR.SORT*ASC" | "BOOLVECTOR.SORT*DESC" => {
            if let Some(v) = s.bvecs.get_mut(0) {
                v.sort();
                if name.ends_with("DESC") {
                    v.reverse();
                }
            }
            fired(s)
        }
        "INTVECTOR.SORT*ASC" | "INTVECTOR.SORT*DESC" => {
            if let Some(v) = s.ivecs.get_mut(0) {
                v.sort();
                if name.ends_with("DESC") {
                    v.reverse();
                }
            }
            fired(s)
        }
        "FLOATVECTOR.SORT*ASC" | "FLOATVECTOR.SORT*DESC" => {
            if let Some(v) = s.fvecs.get_mut(0) {
                if v.iter().any(|x| x.is_nan()) {
                    return Expect::wild(s, Wild { fvec_top_perm: true, ..Default::default() });
                }
                v.sort_by(|a, b| a.partial_cmp(b).unwrap());
                if name.ends_with("DESC") {
                    v.reverse();
                }
                // +0 / -0 compare equal, the order between them is free: zeros are compared
                // numerically (tolerance 0), everything else by identity
                if v.iter().any(|x| *x == 0.0) {
                    let tol = vec![0.0f32; v.len()];
                    return Expect::wild(s, Wild { fvec_top_tol: Some(tol), ..Default::default() });
                }
            }
            fired(s)
        }
        "INTVECTOR.APPEND" => {
            if s.ivecs.is_empty() {
                return fired(s);
            }
            if s.ints.is_empty() {
                return fired(s);
            }
            let x = s.ints.remove(0);
            s.ivecs[0].push(x);
            fired(s)
        }
        "FLOATVECTOR.APPEND" => {
            if s.fvecs.is_empty() || s.floats.is_empty() {
                return fired(s);
            }
            let x = s.floats.remove(0);
            s.fvecs[0].push(x);
            fired(s)
        }
        "INTVECTOR.REMOVE" => {
            if s.ivecs.is_empty() || s.ints.is_empty() {
                return fired(s);
            }
            let x = s.ints.remove(0);
            s.ivecs[0].retain(|y| *y != x);
            fired(s)
        }
        "INTVECTOR.SET*INSERT" => {
            if s.ivecs.is_empty() {
                s.ivecs.insert(0, vec![]);
            }
            if s.ints.is_empty() {
                return fired(s);
            }
            let x = s.ints.remove(0);
            if !s.ivecs[0].contains(&x) {
                s.ivecs[0].push(x);
            }
            fired(s)
        }
        "INTVECTOR.CONTAINS" => {
            if s.ints.is_empty() {
                return fired(s);
            }
            let x = s.ints.remove(0);
            if s.ivecs.is_empty() {
                return Expect::either(s, s0.clone());
            }
            let v = s.ivecs.remove(0);
            s.bools.insert(0, v.contains(&x));
            fired(s)
        }
        "INTVECTOR.BOOLINDEX" => {
            if s.bvecs.is_empty() {
                return fired(s);
            }
            let b = s.bvecs.remove(0);
            s.ivecs.insert(0, b.iter().enumerate().filter(|(_, x)| **x).map(|(i, _)| i as i32).collect());
            fired(s)
        }
        "INTVECTOR.FROMINT" => {
            if s.ints.is_empty() {
                return fired(s);
            }
            let n = s.ints.remove(0);
            let m = (n as i64).min(s.ints.len() as i64).max(0) as usize;
            let taken: Vec<i32> = s.ints.drain(0..m).collect();
            // deepest first
            s.ivecs.insert(0, taken.into_iter().rev().collect());
            fired(s)
        }
        "FLOATVECTOR.*SCALAR" => {
            if s.floats.is_empty() {
                return fired(s);
            }
            let f = s.floats.remove(0);
            if let Some(v) = s.fvecs.get_mut(0) {
                for x in v.iter_mut() {
                    *x *= f;
                }
            }
            fired(s)
        }
        "FLOATVECTOR.SINE" => {
            if s.floats.len() < 3 {
                return fired(s);
            }
            if s.ints.is_empty() {
                return Expect::Unspecified("SINE without the length");
            }
            let a = s.floats.remove(0);
            let x = s.floats.remove(0);
            let phi = s.floats.remove(0);
            let n = s.ints.remove(0);
            if n <= 0 {
                let mut s2 = s.clone();
                s2.fvecs.insert(0, vec![]);
                return Expect::either(s, s2);
            }
            let mut v = vec![];
            let mut tol = vec![];
            for i in 0..n as usize {
                let arg = 2.0 * std::f64::consts::PI * x as f64 * i as f64 + phi as f64;
                v.push((a as f64 * arg.sin()) as f32);
                // f32 evaluation of the argument loses ~|arg| * 2^-22
                let t = (a.abs() as f64) * (1e-3 + arg.abs() * 4e-7);
                tol.push(if t.is_finite() { t as f32 } else { f32::INFINITY });
            }
            if !a.is_finite() || !x.is_finite() || !phi.is_finite() || (x.abs() as f64 * n as f64) > 1e4 || phi.abs() > 1e4 {
                return Expect::Unspecified("SINE with non-finite or huge parameters (value not compared)");
            }
            s.fvecs.insert(0, v);
            Expect::wild(s, Wild { fvec_top_tol: Some(tol), ..Default::default() })
        }
        // ------------------------------------------------------------------ IO (J)
        "INPUT.AVAILABLE" => {
            s.bools.insert(0, !s.input.is_empty());
            fired(s)
        }
        "INPUT.STACKDEPTH" => {
            s.ints.insert(0, s.input.len() as i32);
            fired(s)
        }
        "OUTPUT.STACKDEPTH" => {
            s.ints.insert(0, s.output.len() as i32);
            fired(s)
        }
        "INPUT.NEXT" => {
            if !s.input.is_empty() {
                s.input.remove(0);
            }
            fired(s)
        }
        "INPUT.READ" => {
            if let Some(m) = s.input.first().cloned() {
                s.bvecs.insert(0, m.body);
                s.ivecs.insert(0, m.header);
            }
            fired(s)
        }
        "INPUT.GET" => {
            if s.ints.is_empty() {
                return fired(s);
            }
            let i = s.ints.remove(0);
            if let Some(m) = s.input.first() {
                if !m.body.is_empty() {
                    let b = m.body[clamp(i, m.body.len())];
                    s.bools.insert(0, b);
                }
            }
            fired(s)
        }
        "OUTPUT.FLUSH" => {
            s.output.clear();
            fired(s)
        }
        "OUTPUT.WRITE" => {
            if s.bvecs.is_empty() {
                return fired(s);
            }
            if s.ivecs.is_empty() {
                // body consumed or not: unspecified
                let mut c = s.clone();
                c.bvecs.remove(0);
                return Expect::either(c, s);
            }
            let body = s.bvecs.remove(0);
            let header = s.ivecs.remove(0);
            if s.output.len() < 3 {
                s.output.push(MsgSpec { header, body });
                fired(s)
            } else {
                // full queue: a plain push is ignored, no queued message may be lost or replaced;
                // whether the operands are consumed is unspecified
                Expect::either(s, s0.clone())
            }
        }
        // ------------------------------------------------------------------ LIST (L)
        "LIST.ADD" | "LIST.SET" => {
            let mut pos = None;
            if name == "LIST.SET" {
                if s.ints.is_empty() {
                    return fired(s);
                }
                let p = s.ints.remove(0);
                pos = Some(clamp(p, s.code.len()));
                if s.code.is_empty() {
                    return Expect::Unspecified("LIST.SET on an empty CODE stack");
                }
            }
            if s.ivecs.is_empty() {
                return fired(s);
            }
            let ids = s.ivecs.remove(0);
            let mut items = vec![];
            for id in ids {
                match id {
                    1 => {
                        if !s.bools.is_empty() {
                            items.push(ItemSpec::Bool(s.bools.remove(0)));
                        }
                    }
                    2 => {
                        if !s.bvecs.is_empty() {
                            items.push(ItemSpec::BVec(s.bvecs.remove(0)));
                        }
                    }
                    3 => {
                        if !s.code.is_empty() {
                            items.push(s.code.remove(0));
                        }
                    }
                    4 => {
                        if !s.exec.is_empty() {
                            items.push(s.exec.remove(0));
                        }
                    }
                    5 => {
                        if !s.floats.is_empty() {
                            items.push(ItemSpec::Float(s.floats.remove(0)));
                        }
                    }
                    6 => {
                        if !s.fvecs.is_empty() {
                            items.push(ItemSpec::FVec(s.fvecs.remove(0)));
                        }
                    }
                    9 => {
                        if !s.ints.is_empty() {
                            items.push(ItemSpec::Int(s.ints.remove(0)));
                        }
                    }
                    10 => {
                        if !s.ivecs.is_empty() {
                            items.push(ItemSpec::IVec(s.ivecs.remove(0)));
                        }
                    }
                    11 => {
                        if !s.names.is_empty() {
                            items.push(ItemSpec::Name(s.names.remove(0)));
                        }
                    }
                    _ => {}
                }
            }
            // executes in reverse order of collection: last collected is first element
            items.reverse();
            let record = ItemSpec::List(items);
            match pos {
                None => s.code.insert(0, record),
                Some(p) => {
                    // the position was clamped against the CODE depth before collecting; if the
                    // collection popped CODE items the addressed slot may have moved or vanished
                    if s.code.len() != s0.code.len() {
                        return Expect::Unspecified("LIST.SET whose id vector pops the CODE stack");
                    }
                    if p < s.code.len() {
                        s.code[p] = record;
                    }
                }
            }
            fired(s)
        }
        "LIST.GET" => {
            if s.ints.is_empty() {
                return fired(s);
            }
            let p = s.ints.remove(0);
            if s.code.is_empty() {
                return fired(s);
            }
            let c = clamp(p, s.code.len());
            if s.code[c].is_list() {
                let l = s.code[c].clone();
                s.exec.insert(0, l);
            }
            fired(s)
        }
        "LIST.REMOVE" => {
            if s.ints.is_empty() {
                return fired(s);
            }
            let p = s.ints.remove(0);
            if !s.code.is_empty() {
                let c = clamp(p, s.code.len());
                s.code.remove(c);
            }
            fired(s)
        }
        "LIST.BVAL" | "LIST.IVAL" | "LIST.FVAL" => {
            if s.ints.len() < 2 {
                return fired(s);
            }
            let n = s.ints.remove(0);
            let p = s.ints.remove(0);
            if s.code.is_empty() {
                return fired(s);
            }
            let c = clamp(p, s.code.len());
            let it = s.code[c].clone();
            match name {
                "LIST.BVAL" => {
                    let v = nth_val(&it, n as i64, &|x| matches!(x, ItemSpec::Bool(_)));
                    s.bools.insert(0, if let Some(ItemSpec::Bool(b)) = v { *b } else { false });
                }
                "LIST.IVAL" => {
                    let v = nth_val(&it, n as i64, &|x| matches!(x, ItemSpec::Int(_)));
                    s.ints.insert(0, if let Some(ItemSpec::Int(b)) = v { *b } else { 0 });
                }
                _ => {
                    let v = nth_val(&it, n as i64, &|x| matches!(x, ItemSpec::Float(_)));
                    s.floats.insert(0, if let Some(ItemSpec::Float(b)) = v { *b } else { 0.0 });
                }
            }
            fired(s)
        }
        "LIST.NEIGHBOR*IDS" | "LIST.NEIGHBOR*BVALS" | "LIST.NEIGHBOR*IVALS" | "LIST.NEIGHBOR*FVALS" => {
            let vals = name != "LIST.NEIGHBOR*IDS";
            let need = if vals { 4 } else { 3 };
            if s.ints.len() < need {
                return fired(s);
            }
            let n = if vals { s.ints.remove(0) } else { 0 };
            let size = s.ints.remove(0).max(0);
            let index = s.ints.remove(0);
            let dims = s.ints.remove(0);
            if s.floats.is_empty() {
                return Expect::Unspecified("NEIGHBOR* without the radius");
            }
            let r = s.floats.remove(0);
            let r = if r.is_nan() { 0.0 } else { r.max(0.0) };
            let c = clamp(index, size as usize);
            let d = (dims as i64).min(size as i64).max(0) as usize;
            if size < 1 || d < 1 {
                return fired(s);
            }
            if d > 6 || size > 5000 {
                return Expect::Unspecified("NEIGHBOR* beyond the modelled range (ndim > 6 or size > 5000)");
            }
            let nb = match neighbours(size as usize, d, c, r as f64) {
                Some(v) => v,
                None => return Expect::Unspecified("topology overflow"),
            };
            // radii within float error of a lattice distance are not decided by the docs
            {
                let e = edge_len(size as usize, d).unwrap();
                let cc = coords(c, e, d).unwrap();
                for j in 0..size as usize {
                    let cj = coords(j, e, d).unwrap();
                    let d2: f64 = (0..d).map(|k| (cj[k] as f64 - cc[k] as f64).powi(2)).sum();
                    let dist = d2.sqrt();
                    if (dist - r as f64).abs() <= 1e-4 * (1.0 + dist) && dist != r as f64 {
                        return Expect::Unspecified("radius within float error of a lattice distance");
                    }
                    if dist == r as f64 && d2.sqrt().fract() != 0.0 {
                        return Expect::Unspecified("radius within float error of a lattice distance");
                    }
                }
            }
            match name {
                "LIST.NEIGHBOR*IDS" => s.ivecs.insert(0, nb),
                "LIST.NEIGHBOR*BVALS" => {
                    let v = nb
                        .iter()
                        .filter_map(|j| s.code.get(*j as usize))
                        .map(|it| {
                            if let Some(ItemSpec::Bool(b)) = nth_val(it, n as i64, &|x| matches!(x, ItemSpec::Bool(_))) {
                                *b
                            } else {
                                false
                            }
                        })
                        .collect();
                    s.bvecs.insert(0, v);
                }
                "LIST.NEIGHBOR*IVALS" => {
                    let v = nb
                        .iter()
                        .filter_map(|j| s.code.get(*j as usize))
                        .map(|it| {
                            if let Some(ItemSpec::Int(b)) = nth_val(it, n as i64, &|x| matches!(x, ItemSpec::Int(_))) {
                                *b
                            } else {
                                0
                            }
                        })
                        .collect();
                    s.ivecs.insert(0, v);
                }
                _ => {
                    let v = nb
                        .iter()
                        .filter_map(|j| s.code.get(*j as usize))
                        .map(|it| {
                            if let Some(ItemSpec::Float(b)) = nth_val(it, n as i64, &|x| matches!(x, ItemSpec::Float(_))) {
                                *b
                            } else {
                                0.0
                            }
                        })
                        .collect();
                    s.fvecs.insert(0, v);
                }
            }
            fired(s)
        }
        _ => Expect::NotModelled,
    }
}

/// One interpreter step of the reference (section B). Returns (finished, expectation).
/// `known` = is the name a registered instruction.
pub fn ref_step(s0: &StateSpec, is_registered: &dyn Fn(&str) -> bool) -> (bool, Expect) {
    let mut s = s0.clone();
    if s.exec.is_empty() {
        return (true, Expect::exact(s));
    }
    let it = s.exec.remove(0);
    let e = match it {
        ItemSpec::Bool(b) => {
            s.bools.insert(0, b);
            fired(s)
        }
        ItemSpec::Int(b) => {
            s.ints.insert(0, b);
            fired(s)
        }
        ItemSpec::Float(b) => {
            s.floats.insert(0, b);
            fired(s)
        }
        ItemSpec::BVec(b) => {
            s.bvecs.insert(0, b);
            fired(s)
        }
        ItemSpec::IVec(b) => {
            s.ivecs.insert(0, b);
            fired(s)
        }
        ItemSpec::FVec(b) => {
            s.fvecs.insert(0, b);
            fired(s)
        }
        ItemSpec::Index(c, d) => {
            s.index.insert(0, (c, d));
            fired(s)
        }
        ItemSpec::Graph(g) => {
            if s.graphs.len() < 100 {
                s.graphs.insert(0, g);
            }
            fired(s)
        }
        ItemSpec::Name(n) => {
            if s.quote_name {
                s.names.insert(0, n);
                s.quote_name = false;
            } else if let Some(v) = s.bindings.get(&n).cloned() {
                s.exec.insert(0, v);
            } else {
                s.names.insert(0, n);
            }
            fired(s)
        }
        ItemSpec::Instr(n) => {
            if is_registered(&n) {
                ref_instr(&s, &n)
            } else {
                fired(s)
            }
        }
        ItemSpec::List(v) => {
            for x in v.into_iter().rev() {
                s.exec.insert(0, x);
            }
            fired(s)
        }
    };
    (false, e)
}
