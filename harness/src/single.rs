//! Single-instruction checks: build a state, execute one instruction by name through the
//! registry, compare the whole snapshot with the reference expectation.

use crate::engine::*;
use crate::exec::step_named_on;
use crate::footprint::{self, Footprint};
use crate::gen;
use crate::refmodel::{ref_instr, Expect};
use crate::spec::*;
use proptest::prelude::*;

/// Extra operand values used to top up stacks that are shorter than an instruction needs.
#[derive(Clone, Debug)]
pub struct Supply {
    pub bools: Vec<bool>,
    pub ints: Vec<i32>,
    pub floats: Vec<f32>,
    pub names: Vec<String>,
    pub items: Vec<ItemSpec>,
    pub bvecs: Vec<Vec<bool>>,
    pub ivecs: Vec<Vec<i32>>,
    pub fvecs: Vec<Vec<f32>>,
}

pub fn supply(kinds: &gen::AtomKinds) -> BoxedStrategy<Supply> {
    (
        prop::collection::vec(any::<bool>(), 4),
        prop::collection::vec(gen::int_pool(), 5),
        prop::collection::vec(gen::float_pool(), 4),
        prop::collection::vec(gen::name_pool(), 4),
        prop::collection::vec(gen::tree(kinds, 3, 10, 4), 4),
        prop::collection::vec(gen::bvec(6), 3),
        prop::collection::vec(gen::ivec(6), 3),
        prop::collection::vec(gen::fvec(6), 3),
    )
        .prop_map(|(bools, ints, floats, names, items, bvecs, ivecs, fvecs)| Supply { bools, ints, floats, names, items, bvecs, ivecs, fvecs })
        .boxed()
}

/// Push supply values on top until every documented need of `fp` is met (construction, not
/// rejection). INDEX / INPUT / GRAPH needs are topped up with simple defaults.
pub fn top_up(s: &mut StateSpec, fp: &Footprint, sup: &Supply) {
    for (c, n) in &fp.need {
        let mut k = 0;
        while s.depth_of(c) < *n {
            match *c {
                "BOOLEAN" => s.bools.insert(0, sup.bools[k % sup.bools.len()]),
                "INTEGER" => s.ints.insert(0, sup.ints[k % sup.ints.len()]),
                "FLOAT" => s.floats.insert(0, sup.floats[k % sup.floats.len()]),
                "NAME" => s.names.insert(0, sup.names[k % sup.names.len()].clone()),
                "CODE" => s.code.insert(0, sup.items[k % sup.items.len()].clone()),
                "EXEC" => s.exec.insert(0, sup.items[k % sup.items.len()].clone()),
                "BOOLVECTOR" => s.bvecs.insert(0, sup.bvecs[k % sup.bvecs.len()].clone()),
                "INTVECTOR" => s.ivecs.insert(0, sup.ivecs[k % sup.ivecs.len()].clone()),
                "FLOATVECTOR" => s.fvecs.insert(0, sup.fvecs[k % sup.fvecs.len()].clone()),
                "INDEX" => s.index.insert(0, (0, (sup.ints[k % sup.ints.len()].rem_euclid(5)) as usize)),
                "INPUT" => s.input.insert(0, MsgSpec { header: sup.ivecs[0].clone(), body: sup.bvecs[0].clone() }),
                "OUTPUT" => s.output.insert(0, MsgSpec::default()),
                "GRAPH" => s.graphs.insert(0, GraphSpec::default()),
                _ => {}
            }
            k += 1;
        }
    }
}

pub struct Judged {
    pub compared: bool,
    pub needs_met: bool,
    pub after: StateSpec,
    pub unspecified: Option<&'static str>,
}

/// Execute `name` on `before` and compare with the reference.
/// `force_compare`: compare even when the documented needs are not met.
pub fn judge_instr(prop: &str, name: &str, before: &StateSpec, force_compare: bool) -> Result<Judged, Fail> {
    crate::supervise::journal_instr(prop, name, before);
    let after = step_named_on(before, name).map_err(|(loc, msg)| {
        Fail::new(format!("{}/{}/panic@{}", prop, name, loc), format!("{} panicked at {}: {} | state before: {}", name, loc, msg, before.brief()))
    })?;
    let fp = footprint::get(name);
    let needs_met = fp.as_ref().map(|f| f.needs_met(before)).unwrap_or(true);
    if !needs_met && !force_compare {
        return Ok(Judged { compared: false, needs_met, after, unspecified: None });
    }
    // the reference works on the snapshot of the built state so that graph ids are real ids
    let exp = ref_instr(before, name);
    match exp.judge(&canon_graphs(&after, before)) {
        None => Ok(Judged {
            compared: false,
            needs_met,
            after,
            unspecified: match exp {
                Expect::Unspecified(w) => Some(w),
                _ => Some("not modelled"),
            },
        }),
        Some(Ok(())) => Ok(Judged { compared: true, needs_met, after, unspecified: None }),
        Some(Err((comp, text))) => Err(Fail::new(
            format!("{}/{}/{}", prop, name, comp),
            format!("{}: {} | state before: {}", name, text, before.brief()),
        )),
    }
}

/// `before` describes graphs with ordinal node ids, the snapshot has process-wide ids:
/// rename the snapshot's ids to ranks when the spec uses ordinals (graphs are bystanders in
/// every check that uses this function).
fn canon_graphs(after: &StateSpec, before: &StateSpec) -> StateSpec {
    if before.graphs.is_empty() && after.graphs.is_empty() {
        return after.clone();
    }
    after.clone().canonical()
}

/// A random state whose operand stacks for the drawn instruction are topped up. Plain tuple +
/// map (no flat_map), so that the instruction, the state and the supply shrink independently.
pub fn state_for_any(names: Vec<String>, params: &gen::StateParams) -> BoxedStrategy<(String, StateSpec)> {
    let kinds = params.kinds.clone();
    (prop::sample::select(names), gen::state(params), supply(&kinds))
        .prop_map(move |(name, mut s, sup)| {
            if let Some(fp) = footprint::get(&name) {
                top_up(&mut s, &fp, &sup);
            }
            (name, s)
        })
        .boxed()
}
