//! proptest strategies: value pools (boundary x random), vectors, code trees, programs, states.

use crate::spec::*;
use proptest::prelude::*;
use proptest::strategy::BoxedStrategy;
use std::collections::BTreeMap;

pub const INT_BOUNDARY: [i32; 17] = [
    i32::MIN,
    i32::MIN + 1,
    -65536,
    -3,
    -2,
    -1,
    0,
    1,
    2,
    3,
    4,
    5,
    8,
    65536,
    i32::MAX - 1,
    i32::MAX,
    46341, // smallest n with n*n > i32::MAX
];

pub fn int_pool() -> BoxedStrategy<i32> {
    prop_oneof![
        4 => prop::sample::select(INT_BOUNDARY.to_vec()),
        4 => -10i32..=10,
        1 => -1000i32..=1000,
        1 => any::<i32>(),
    ]
    .boxed()
}
/// small integers only (indices, labels)
pub fn int_small() -> BoxedStrategy<i32> {
    prop_oneof![4 => -3i32..=12, 1 => -100i32..=100].boxed()
}

pub const FLOAT_BOUNDARY: [f32; 22] = [
    0.0,
    -0.0,
    1.0,
    -1.0,
    0.5,
    -0.5,
    0.001,
    f32::MIN_POSITIVE,
    1e30,
    -1e30,
    f32::MAX,
    f32::MIN,
    f32::INFINITY,
    f32::NEG_INFINITY,
    f32::NAN,
    2147483648.0,
    -2147483904.0,
    2147483520.0,
    3.0,
    2.5,
    -2.5,
    100.25,
];
pub fn float_pool() -> BoxedStrategy<f32> {
    prop_oneof![
        4 => prop::sample::select(FLOAT_BOUNDARY.to_vec()),
        4 => (-1000i32..=1000).prop_map(|x| x as f32 / 8.0),
        2 => -1000.0f32..1000.0,
        1 => any::<f32>(),
    ]
    .boxed()
}
/// finite floats of moderate size
pub fn float_tame() -> BoxedStrategy<f32> {
    prop_oneof![3 => (-400i32..=400).prop_map(|x| x as f32 / 8.0), 1 => -100.0f32..100.0].boxed()
}

pub const NAME_POOL: [&str; 10] = ["a", "b", "ab", "x1", "foo", "Bar", "n", "q", "zeta", "k9"];
pub fn name_pool() -> BoxedStrategy<String> {
    prop_oneof![
        6 => prop::sample::select(NAME_POOL.to_vec()).prop_map(|s| s.to_string()),
        1 => "[a-z][a-z0-9_]{0,6}".prop_map(|s| s),
    ]
    .boxed()
}

pub fn vec_len(max: usize) -> BoxedStrategy<usize> {
    let pool: Vec<usize> = [0usize, 1, 2, 3, 5, 8].iter().cloned().filter(|x| *x <= max).collect();
    prop_oneof![3 => prop::sample::select(pool), 1 => 0..=max].boxed()
}
pub fn bvec(max: usize) -> BoxedStrategy<Vec<bool>> {
    vec_len(max).prop_flat_map(|n| prop::collection::vec(any::<bool>(), n)).boxed()
}
pub fn ivec(max: usize) -> BoxedStrategy<Vec<i32>> {
    vec_len(max).prop_flat_map(|n| prop::collection::vec(int_pool(), n)).boxed()
}
pub fn ivec_small(max: usize) -> BoxedStrategy<Vec<i32>> {
    vec_len(max).prop_flat_map(|n| prop::collection::vec(int_small(), n)).boxed()
}
pub fn fvec(max: usize) -> BoxedStrategy<Vec<f32>> {
    vec_len(max).prop_flat_map(|n| prop::collection::vec(float_pool(), n)).boxed()
}
pub fn fvec_tame(max: usize) -> BoxedStrategy<Vec<f32>> {
    vec_len(max).prop_flat_map(|n| prop::collection::vec(float_tame(), n)).boxed()
}

/// Which atom kinds a tree generator may use.
#[derive(Clone)]
pub struct AtomKinds {
    pub ints: bool,
    pub floats: bool,
    pub bools: bool,
    pub names: bool,
    pub instrs: Vec<String>,
    pub vectors: bool,
    pub float_strategy: Option<BoxedStrategy<f32>>,
}
impl AtomKinds {
    pub fn all(instrs: Vec<String>) -> AtomKinds {
        AtomKinds { ints: true, floats: true, bools: true, names: true, instrs, vectors: true, float_strategy: None }
    }
}

pub fn atom(k: &AtomKinds) -> BoxedStrategy<ItemSpec> {
    let mut alts: Vec<(u32, BoxedStrategy<ItemSpec>)> = vec![];
    if k.ints {
        alts.push((3, int_pool().prop_map(ItemSpec::Int).boxed()));
    }
    if k.floats {
        let fs = k.float_strategy.clone().unwrap_or_else(float_pool);
        alts.push((2, fs.prop_map(ItemSpec::Float).boxed()));
    }
    if k.bools {
        alts.push((2, any::<bool>().prop_map(ItemSpec::Bool).boxed()));
    }
    if k.names {
        alts.push((2, name_pool().prop_map(ItemSpec::Name).boxed()));
    }
    if !k.instrs.is_empty() {
        alts.push((8, prop::sample::select(k.instrs.clone()).prop_map(ItemSpec::Instr).boxed()));
    }
    if k.vectors {
        alts.push((1, bvec(5).prop_map(ItemSpec::BVec).boxed()));
        alts.push((1, ivec(5).prop_map(ItemSpec::IVec).boxed()));
        alts.push((1, fvec(5).prop_map(ItemSpec::FVec).boxed()));
    }
    proptest::strategy::Union::new_weighted(alts).boxed()
}

/// Code trees of bounded depth / size.
pub fn tree(k: &AtomKinds, depth: u32, size: u32, branch: u32) -> BoxedStrategy<ItemSpec> {
    let leaf = atom(k);
    leaf.prop_recursive(depth, size, branch, move |inner| {
        prop::collection::vec(inner, 0..=(branch as usize)).prop_map(ItemSpec::List)
    })
    .boxed()
}

/// A program: a list at top level (as the parser would produce from "( ... )").
pub fn program(k: &AtomKinds, depth: u32, size: u32) -> BoxedStrategy<ItemSpec> {
    let t = tree(k, depth, size, 6);
    prop::collection::vec(t, 1..=((size as usize).min(24)).max(1)).prop_map(ItemSpec::List).boxed()
}

pub fn msg() -> BoxedStrategy<MsgSpec> {
    (ivec_small(4), bvec(6)).prop_map(|(header, body)| MsgSpec { header, body }).boxed()
}

pub fn graph_spec(max_nodes: usize) -> BoxedStrategy<GraphSpec> {
    (0..=max_nodes)
        .prop_flat_map(|n| {
            let nodes = prop::collection::vec(-2i32..=3, n);
            let edges = if n == 0 {
                Just(vec![]).boxed()
            } else {
                prop::collection::vec((0..n, 0..n, float_tame()), 0..=(2 * n)).boxed()
            };
            (nodes, edges)
        })
        .prop_map(|(states, mut edges)| {
            edges.sort_by(|a, b| (a.0, a.1).cmp(&(b.0, b.1)));
            edges.dedup_by(|a, b| a.0 == b.0 && a.1 == b.1);
            GraphSpec { nodes: states.into_iter().enumerate().collect(), edges }
        })
        .boxed()
}

#[derive(Clone)]
pub struct StateParams {
    pub max_depth: usize,
    pub kinds: AtomKinds,
    pub tree_depth: u32,
    pub tree_size: u32,
    pub graphs: bool,
    pub io: bool,
    pub bindings: bool,
    pub flags: bool,
    pub index: bool,
}
impl StateParams {
    pub fn full(instrs: Vec<String>) -> StateParams {
        StateParams {
            max_depth: 5,
            kinds: AtomKinds::all(instrs),
            tree_depth: 3,
            tree_size: 12,
            graphs: true,
            io: true,
            bindings: true,
            flags: true,
            index: true,
        }
    }
}

fn depth_strategy(max: usize) -> BoxedStrategy<usize> {
    prop_oneof![1 => Just(0usize), 3 => 0..=max].boxed()
}

/// Random state with bystander content on every component.
pub fn state(p: &StateParams) -> BoxedStrategy<StateSpec> {
    let d = p.max_depth;
    let items = |p: &StateParams| {
        let t = tree(&p.kinds, p.tree_depth, p.tree_size, 4);
        depth_strategy(p.max_depth).prop_flat_map(move |n| prop::collection::vec(t.clone(), n)).boxed()
    };
    let scalars = (
        depth_strategy(d).prop_flat_map(|n| prop::collection::vec(any::<bool>(), n)),
        depth_strategy(d + 2).prop_flat_map(|n| prop::collection::vec(int_pool(), n)),
        depth_strategy(d).prop_flat_map(|n| prop::collection::vec(float_pool(), n)),
        depth_strategy(d).prop_flat_map(|n| prop::collection::vec(name_pool(), n)),
    );
    let codes = (items(p), items(p));
    let vecs = (
        depth_strategy(d).prop_flat_map(|n| prop::collection::vec(bvec(6), n)),
        depth_strategy(d).prop_flat_map(|n| prop::collection::vec(ivec(6), n)),
        depth_strategy(d).prop_flat_map(|n| prop::collection::vec(fvec(6), n)),
    );
    let index = if p.index {
        depth_strategy(3)
            .prop_flat_map(|n| prop::collection::vec((0usize..6, 0usize..6), n))
            .boxed()
    } else {
        Just(vec![]).boxed()
    };
    let io = if p.io {
        (
            depth_strategy(4).prop_flat_map(|n| prop::collection::vec(msg(), n)),
            depth_strategy(3).prop_flat_map(|n| prop::collection::vec(msg(), n)),
        )
            .boxed()
    } else {
        Just((vec![], vec![])).boxed()
    };
    let graphs = if p.graphs {
        depth_strategy(3).prop_flat_map(|n| prop::collection::vec(graph_spec(4), n)).boxed()
    } else {
        Just(vec![]).boxed()
    };
    let bindings = if p.bindings {
        let t = tree(&p.kinds, 2, 6, 3);
        prop::collection::vec((prop::sample::select(NAME_POOL.to_vec()), t), 0..=3)
            .prop_map(|v| v.into_iter().map(|(k, v)| (k.to_string(), v)).collect::<BTreeMap<_, _>>())
            .boxed()
    } else {
        Just(BTreeMap::new()).boxed()
    };
    let flags = if p.flags {
        (prop::bool::weighted(0.15), prop::bool::weighted(0.15)).boxed()
    } else {
        Just((false, false)).boxed()
    };
    (scalars, codes, vecs, index, io, graphs, bindings, flags)
        .prop_map(
            |((bools, ints, floats, names), (code, exec), (bvecs, ivecs, fvecs), index, (input, output), graphs, bindings, (q, s))| StateSpec {
                bools,
                ints,
                floats,
                names,
                code,
                exec,
                bvecs,
                ivecs,
                fvecs,
                index,
                input,
                output,
                graphs,
                bindings,
                quote_name: q,
                send_name: s,
                config: ConfigSpec::default(),
            },
        )
        .boxed()
}

/// An index-like integer relative to a length: boundary values around 0, len and the i32 range.
pub fn index_around(len: usize) -> BoxedStrategy<i32> {
    let l = len as i32;
    prop_oneof![
        6 => prop::sample::select(vec![i32::MIN, -l - 1, -l, -1, 0, 1, l - 2, l - 1, l, l + 1, 2 * l, i32::MAX]),
        3 => (-2 * l - 2)..=(2 * l + 2),
        1 => any::<i32>(),
    ]
    .boxed()
}

/// Monotone index mapping (keeps shrinking towards small indices): i in 0..len
pub fn pick_index(raw: u16, len: usize) -> usize {
    if len == 0 {
        0
    } else {
        ((raw as usize) * len) >> 16
    }
}
