//! Running pushr: instruction sets, single steps by name, stdout handling, EXEC.CMD stub.

use crate::engine::guarded;
use crate::spec::StateSpec;
use pushr::push::instructions::{Instruction, InstructionCache, InstructionSet};
use pushr::push::interpreter::PushInterpreter;
use pushr::push::item::Item;
use pushr::push::state::PushState;
use std::io::Write;
use std::sync::atomic::{AtomicI32, Ordering};

static SAVED_STDOUT: AtomicI32 = AtomicI32::new(-1);

/// pushr prints from inside GRAPH.EDGE*HISTORY and EXEC.CMD. Point fd 1 at /dev/null and keep
/// the real stdout for our own report lines.
pub fn silence_stdout_of_pushr() {
    unsafe {
        let saved = libc::dup(1);
        let devnull = libc::open(b"/dev/null\0".as_ptr() as *const libc::c_char, libc::O_WRONLY);
        if saved >= 0 && devnull >= 0 {
            libc::dup2(devnull, 1);
            libc::close(devnull);
            SAVED_STDOUT.store(saved, Ordering::SeqCst);
        }
    }
}

pub fn say(line: &str) {
    let fd = SAVED_STDOUT.load(Ordering::SeqCst);
    let text = format!("{}\n", line);
    if fd >= 0 {
        unsafe {
            libc::write(fd, text.as_ptr() as *const libc::c_void, text.len());
        }
    } else {
        let _ = std::io::stdout().write_all(text.as_bytes());
    }
}

/// EXEC.CMD wrapper (resource envelope (d)): when the operands would reach the spawn, the
/// harness performs the documented stack effect itself and skips the spawn and the built-in
/// 1 s sleep - unless the command is the harmless target /bin/true, which really runs;
/// otherwise (operands missing, negative or absurd argument count) the real instruction runs.
pub fn exec_cmd_stub(push_state: &mut PushState, c: &InstructionCache) {
    let reach = match push_state.int_stack.get(0) {
        Some(n) if *n > -1 => (*n as i64 + 1) <= push_state.name_stack.size() as i64,
        _ => false,
    };
    if !reach {
        pushr::push::execution::exec_cmd(push_state, c);
        return;
    }
    let n = *push_state.int_stack.get(0).unwrap() as usize;
    let harmless = push_state.name_stack.get(n).map(|s| s == "/bin/true").unwrap_or(false);
    if harmless {
        pushr::push::execution::exec_cmd(push_state, c);
    } else {
        push_state.int_stack.pop();
        let _ = push_state.name_stack.pop_vec(n + 1);
    }
}

pub const USER_INSTRUCTIONS: [&str; 3] = ["SENSOR.READ", "MyInstruction", "X.Y.Z"];
fn user_noop(_s: &mut PushState, _c: &InstructionCache) {}

pub struct Machine {
    pub iset: InstructionSet,
    pub icache: InstructionCache,
}

impl Machine {
    /// Default instruction set; `stub_cmd` replaces EXEC.CMD by its spawn-free stub.
    pub fn new(stub_cmd: bool) -> Machine {
        let mut iset = InstructionSet::new();
        iset.load();
        if stub_cmd {
            iset.add("EXEC.CMD".to_string(), Instruction::new(exec_cmd_stub));
        }
        // instructions added by the user through InstructionSet::add (README): no-ops with names
        // outside the built-in TYPE.OP families, so that "registered instruction" is exercised
        // for names the library did not load itself
        for n in USER_INSTRUCTIONS.iter() {
            iset.add(n.to_string(), Instruction::new(user_noop));
        }
        let icache = iset.cache();
        Machine { iset, icache }
    }
    pub fn names(&self) -> Vec<String> {
        let mut v = self.icache.list.clone();
        v.sort();
        v
    }
    /// One interpreter step.
    pub fn step(&mut self, st: &mut PushState) -> bool {
        PushInterpreter::step(st, &mut self.iset, &self.icache)
    }
    /// Push the named instruction on EXEC and take one step (this is how an instruction is
    /// reached "by name through the registry").
    pub fn step_named(&mut self, st: &mut PushState, name: &str) -> bool {
        st.exec_stack.push(Item::instruction(name.to_string()));
        self.step(st)
    }
}

thread_local! {
    static MACHINE: std::cell::RefCell<Option<Machine>> = std::cell::RefCell::new(None);
}

/// Per-thread cached machine with the EXEC.CMD stub.
pub fn with_machine<R>(f: impl FnOnce(&mut Machine) -> R) -> R {
    MACHINE.with(|m| {
        let mut m = m.borrow_mut();
        if m.is_none() {
            *m = Some(Machine::new(true));
        }
        f(m.as_mut().unwrap())
    })
}

/// Build `spec`, execute instruction `name` by one step, return the snapshot.
/// Err((location, message)) on panic.
pub fn step_named_on(spec: &StateSpec, name: &str) -> Result<StateSpec, (String, String)> {
    let (mut st, _) = spec.build();
    let r = guarded(|| with_machine(|m| m.step_named(&mut st, name)));
    match r {
        Ok(_) => Ok(StateSpec::snapshot(&st)),
        Err(e) => {
            // the thread-local machine may be poisoned mid-call: rebuild it
            MACHINE.with(|m| *m.borrow_mut() = None);
            Err(e)
        }
    }
}

/// All registered instruction names of the default set (sorted).
pub fn registry_names() -> Vec<String> {
    with_machine(|m| m.names())
}

/// Crash-only execution of a program (used to confirm journalled cases): `mode` = "step"
/// (envelope-monitored stepping) or "run" (PushInterpreter::run).
pub fn exec_program_for_replay(state: &StateSpec, max_steps: usize, mode: &str) -> Result<(), String> {
    let (mut st, _) = state.build();
    let r = guarded(|| {
        with_machine(|m| {
            if mode == "run" {
                let _ = pushr::push::interpreter::PushInterpreter::run(&mut st, &mut m.iset);
            } else {
                for _ in 0..max_steps {
                    crate::envelope::clamp_sizes(&mut st);
                    if m.step(&mut st) {
                        break;
                    }
                    if crate::envelope::outside(&st) {
                        break;
                    }
                }
            }
        })
    });
    r.map_err(|(loc, msg)| format!("panic at {}: {}", loc, msg))
}

// ---------------------------------------------------------------------------------------------
// TICK: a harness instruction (added through InstructionSet::add, as the README documents) that
// pops a marker k from INTEGER and appends (k, current of the top INDEX or -1, top INTEGER after
// the pop) to a thread-local log.

thread_local! {
    pub static TICK_LOG: std::cell::RefCell<Vec<(i32, i64, Option<i32>)>> = std::cell::RefCell::new(vec![]);
    static TICK_MACHINE: std::cell::RefCell<Option<Machine>> = std::cell::RefCell::new(None);
}
fn tick(push_state: &mut PushState, _c: &InstructionCache) {
    if let Some(k) = push_state.int_stack.pop() {
        let cur = push_state.index_stack.get(0).map(|i| i.current as i64).unwrap_or(-1);
        let top = push_state.int_stack.get(0).cloned();
        TICK_LOG.with(|l| l.borrow_mut().push((k, cur, top)));
    }
}
pub fn with_tick_machine<R>(f: impl FnOnce(&mut Machine) -> R) -> R {
    TICK_MACHINE.with(|m| {
        let mut m = m.borrow_mut();
        if m.is_none() {
            let mut mm = Machine::new(true);
            mm.iset.add("TICK".to_string(), Instruction::new(tick));
            mm.icache = mm.iset.cache();
            *m = Some(mm);
        }
        f(m.as_mut().unwrap())
    })
}
pub fn reset_tick_machine() {
    TICK_MACHINE.with(|m| *m.borrow_mut() = None);
}
