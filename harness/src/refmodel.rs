//! Reference semantics (see /verif/design/reference-semantics.md). Pure functions on spec
//! values; never calls the function under test.
//!
//! `ref_instr(state_before, name)` returns what the documentation allows as the state after
//! executing the named instruction once (the state passed in is the state AFTER the
//! instruction itself has left the EXEC stack).

use crate::spec::*;

/// pushr's documented print format for code items: lists as "( a b )", booleans upper case,
/// floats with three decimals, vectors as "[a,b]" without type prefix.
pub fn print_item(t: &ItemSpec) -> String {
    match t {
        ItemSpec::List(v) => {
            let inner: Vec<String> = v.iter().map(print_item).collect();
            format!("( {} )", inner.join(" "))
        }
        ItemSpec::Instr(n) | ItemSpec::Name(n) => n.clone(),
        ItemSpec::Int(v) => v.to_string(),
        ItemSpec::Float(v) => format!("{:.3}", v),
        ItemSpec::Bool(v) => {
            if *v {
                "TRUE".into()
            } else {
                "FALSE".into()
            }
        }
        ItemSpec::BVec(v) => {
            format!("[{}]", v.iter().map(|b| if *b { "TRUE" } else { "FALSE" }).collect::<Vec<_>>().join(","))
        }
        ItemSpec::IVec(v) => format!("[{}]", v.iter().map(|b| b.to_string()).collect::<Vec<_>>().join(",")),
        ItemSpec::FVec(v) => format!("[{}]", v.iter().map(|b| format!("{:.3}", b)).collect::<Vec<_>>().join(",")),
        ItemSpec::Index(c, d) => format!("{}/{}", c, d),
        ItemSpec::Graph(_) => "<graph>".to_string(),
    }
}

/// clamp(i, d) = max(min(d-1, i), 0) evaluated in i64
pub fn clamp(i: i32, d: usize) -> usize {
    let v = (i as i64).min(d as i64 - 1).max(0);
    v as usize
}

// ---------------------------------------------------------------------------------------------
// expectations

/// Slots of the expected state whose value is not determined by the documentation.
#[derive(Clone, Debug, Default)]
pub struct Wild {
    /// top INTEGER may be any i32
    pub int_top_any: bool,
    /// these positions of the top INTVECTOR may hold any i32
    pub ivec_top_any: Vec<usize>,
    /// top FLOAT within this absolute tolerance of the expected one (class must agree)
    pub float_top_tol: Option<f32>,
    /// every element of the top FLOATVECTOR within tolerance (per element absolute)
    pub fvec_top_tol: Option<Vec<f32>>,
    /// top FLOATVECTOR / BOOLVECTOR / INTVECTOR only needs to be a permutation of the expected
    pub fvec_top_perm: bool,
}

#[derive(Clone, Debug)]
pub struct Alt {
    pub state: StateSpec,
    pub wild: Wild,
}

#[derive(Clone, Debug)]
pub enum Expect {
    /// the result must match one of the alternatives
    OneOf(Vec<Alt>),
    /// value not determined by docs/tests: not compared (C01/C10 still apply)
    Unspecified(&'static str),
    /// the reference does not cover this instruction
    NotModelled,
}

impl Expect {
    pub fn exact(state: StateSpec) -> Expect {
        Expect::OneOf(vec![Alt { state, wild: Wild::default() }])
    }
    pub fn wild(state: StateSpec, wild: Wild) -> Expect {
        Expect::OneOf(vec![Alt { state, wild }])
    }
    pub fn either(a: StateSpec, b: StateSpec) -> Expect {
        Expect::OneOf(vec![Alt { state: a, wild: Wild::default() }, Alt { state: b, wild: Wild::default() }])
    }
    /// None = not comparable (unspecified / not modelled); Some(Ok) = matches; Some(Err(component, text))
    pub fn judge(&self, actual: &StateSpec) -> Option<Result<(), (String, String)>> {
        match self {
            Expect::Unspecified(_) | Expect::NotModelled => None,
            Expect::OneOf(alts) => {
                let mut first_err = None;
                for a in alts {
                    match alt_matches(a, actual) {
                        Ok(()) => return Some(Ok(())),
                        Err(e) => {
                            if first_err.is_none() {
                                first_err = Some(e)
                            }
                        }
                    }
                }
                Some(Err(first_err.unwrap_or(("?".into(), "no alternative".into()))))
            }
        }
    }
}

fn close(a: f32, e: f32, tol: f32) -> bool {
    if a.is_nan() || e.is_nan() {
        return a.is_nan() && e.is_nan();
    }
    if a.is_infinite() || e.is_infinite() {
        return a == e;
    }
    (a - e).abs() <= tol
}

fn alt_matches(alt: &Alt, actual: &StateSpec) -> Result<(), (String, String)> {
    let mut a = actual.clone();
    let e = &alt.state;
    let w = &alt.wild;
    if w.int_top_any && !a.ints.is_empty() && !e.ints.is_empty() {
        a.ints[0] = e.ints[0];
    }
    if !w.ivec_top_any.is_empty() && !a.ivecs.is_empty() && !e.ivecs.is_empty() && a.ivecs[0].len() == e.ivecs[0].len() {
        for p in &w.ivec_top_any {
            if *p < a.ivecs[0].len() {
                a.ivecs[0][*p] = e.ivecs[0][*p];
            }
        }
    }
    if let Some(t) = w.float_top_tol {
        if !a.floats.is_empty() && !e.floats.is_empty() && close(a.floats[0], e.floats[0], t) {
            a.floats[0] = e.floats[0];
        }
    }
    if let Some(ts) = &w.fvec_top_tol {
        if !a.fvecs.is_empty() && !e.fvecs.is_empty() && a.fvecs[0].len() == e.fvecs[0].len() && ts.len() == e.fvecs[0].len() {
            for i in 0..ts.len() {
                if close(a.fvecs[0][i], e.fvecs[0][i], ts[i]) {
                    a.fvecs[0][i] = e.fvecs[0][i];
                }
            }
        }
    }
    if w.fvec_top_perm && !a.fvecs.is_empty() && !e.fvecs.is_empty() {
        let key = |v: &Vec<f32>| {
            let mut k: Vec<u32> = v.iter().map(|x| if x.is_nan() { 0x7fc00000 } else if *x == 0.0 { 0 } else { x.to_bits() }).collect();
            k.sort();
            k
        };
        if key(&a.fvecs[0]) == key(&e.fvecs[0]) {
            a.fvecs[0] = e.fvecs[0].clone();
        }
    }
    match e.diff(&a) {
        None => Ok(()),
        Some(_) => {
            let comps = e.differing_components(&a);
            let c = comps.first().cloned().unwrap_or("?");
            Err((c.to_string(), format!("{}: expected {} got {}", c, e.component_text(c), actual.component_text(c))))
        }
    }
}

// ---------------------------------------------------------------------------------------------
// generic typed stacks

pub const NINE: [&str; 9] = ["BOOLEAN", "INTEGER", "FLOAT", "NAME", "CODE", "EXEC", "BOOLVECTOR", "INTVECTOR", "FLOATVECTOR"];

pub fn get_stack(s: &StateSpec, t: &str) -> Vec<ItemSpec> {
    match t {
        "BOOLEAN" => s.bools.iter().map(|x| ItemSpec::Bool(*x)).collect(),
        "INTEGER" => s.ints.iter().map(|x| ItemSpec::Int(*x)).collect(),
        "FLOAT" => s.floats.iter().map(|x| ItemSpec::Float(*x)).collect(),
        "NAME" => s.names.iter().map(|x| ItemSpec::Name(x.clone())).collect(),
        "CODE" => s.code.clone(),
        "EXEC" => s.exec.clone(),
        "BOOLVECTOR" => s.bvecs.iter().map(|x| ItemSpec::BVec(x.clone())).collect(),
        "INTVECTOR" => s.ivecs.iter().map(|x| ItemSpec::IVec(x.clone())).collect(),
        "FLOATVECTOR" => s.fvecs.iter().map(|x| ItemSpec::FVec(x.clone())).collect(),
        _ => panic!("get_stack {}", t),
    }
}
pub fn set_stack(s: &mut StateSpec, t: &str, v: Vec<ItemSpec>) {
    match t {
        "BOOLEAN" => s.bools = v.into_iter().map(|x| if let ItemSpec::Bool(b) = x { b } else { panic!() }).collect(),
        "INTEGER" => s.ints = v.into_iter().map(|x| if let ItemSpec::Int(b) = x { b } else { panic!() }).collect(),
        "FLOAT" => s.floats = v.into_iter().map(|x| if let ItemSpec::Float(b) = x { b } else { panic!() }).collect(),
        "NAME" => s.names = v.into_iter().map(|x| if let ItemSpec::Name(b) = x { b } else { panic!() }).collect(),
        "CODE" => s.code = v,
        "EXEC" => s.exec = v,
        "BOOLVECTOR" => s.bvecs = v.into_iter().map(|x| if let ItemSpec::BVec(b) = x { b } else { panic!() }).collect(),
        "INTVECTOR" => s.ivecs = v.into_iter().map(|x| if let ItemSpec::IVec(b) = x { b } else { panic!() }).collect(),
        "FLOATVECTOR" => s.fvecs = v.into_iter().map(|x| if let ItemSpec::FVec(b) = x { b } else { panic!() }).collect(),
        _ => panic!("set_stack {}", t),
    }
}

/// The generic position map of section D applied to a top-first element list.
/// Returns None when the operation has no effect on the stack.
pub fn stack_op<T: Clone>(op: &str, st: &[T], index: i32) -> Option<Vec<T>> {
    let d = st.len();
    let mut v: Vec<T> = st.to_vec();
    match op {
        "DUP" => {
            if d >= 1 {
                v.insert(0, st[0].clone());
                Some(v)
            } else {
                None
            }
        }
        "POP" => {
            if d >= 1 {
                v.remove(0);
                Some(v)
            } else {
                None
            }
        }
        "FLUSH" => Some(vec![]),
        "SWAP" => {
            if d >= 2 {
                v.swap(0, 1);
                Some(v)
            } else {
                None
            }
        }
        "ROT" => {
            if d >= 3 {
                let e = v.remove(2);
                v.insert(0, e);
                Some(v)
            } else {
                None
            }
        }
        "YANK" => {
            if d >= 1 {
                let c = clamp(index, d);
                let e = v.remove(c);
                v.insert(0, e);
                Some(v)
            } else {
                None
            }
        }
        "YANKDUP" => {
            if d >= 1 {
                let c = clamp(index, d);
                v.insert(0, st[c].clone());
                Some(v)
            } else {
                None
            }
        }
        "SHOVE" => {
            if d >= 1 {
                let c = clamp(index, d);
                let e = v.remove(0);
                v.insert(c, e);
                Some(v)
            } else {
                None
            }
        }
        _ => None,
    }
}

// ---------------------------------------------------------------------------------------------
// code algebra (section G)

pub fn replace_at(t: &ItemSpec, idx: usize, new: &ItemSpec) -> ItemSpec {
    fn rec(t: &ItemSpec, idx: usize, new: &ItemSpec, counter: &mut usize) -> ItemSpec {
        let here = *counter;
        *counter += 1;
        if here == idx {
            // skip the whole subtree in the numbering
            *counter += t.points() - 1;
            return new.clone();
        }
        match t {
            ItemSpec::List(v) => ItemSpec::List(v.iter().map(|c| rec(c, idx, new, counter)).collect()),
            x => x.clone(),
        }
    }
    let mut c = 0;
    rec(t, idx, new, &mut c)
}
pub fn subst(t: &ItemSpec, pattern: &ItemSpec, with: &ItemSpec) -> ItemSpec {
    if t == pattern {
        return with.clone();
    }
    match t {
        ItemSpec::List(v) => ItemSpec::List(v.iter().map(|c| subst(c, pattern, with)).collect()),
        x => x.clone(),
    }
}
/// parent list of the first pre-order occurrence of `pattern` strictly inside `t`
pub fn container(t: &ItemSpec, pattern: &ItemSpec) -> Option<ItemSpec> {
    if t == pattern {
        return None;
    }
    fn rec(t: &ItemSpec, pattern: &ItemSpec) -> Option<ItemSpec> {
        if let ItemSpec::List(v) = t {
            for c in v {
                if c == pattern {
                    return Some(t.clone());
                }
                if let Some(r) = rec(c, pattern) {
                    return Some(r);
                }
            }
        }
        None
    }
    rec(t, pattern)
}
pub fn occurs(t: &ItemSpec, pattern: &ItemSpec) -> bool {
    t.preorder().iter().any(|x| *x == pattern)
}

// ---------------------------------------------------------------------------------------------
// the dispatcher

fn fired(s: StateSpec) -> Expect {
    Expect::exact(s)
}

pub fn ref_instr(s0: &StateSpec, name: &str) -> Expect {
    let mut s = s0.clone();
    // ----- generic stack manipulation (section D)
    if let Some((t, op)) = name.split_once('.') {
        if NINE.contains(&t) {
            match op {
                "DUP" | "POP" | "FLUSH" | "SWAP" | "ROT" => {
                    if t == "EXEC" && op == "DUP" {
                        // documented identically (copy of the next EXEC item)
                    }
                    let st = get_stack(&s, t);
                    if let Some(n) = stack_op(op, &st, 0) {
                        set_stack(&mut s, t, n);
                    }
                    return fired(s);
                }
                "YANK" | "YANKDUP" | "SHOVE" => {
                    if s.ints.is_empty() {
                        return fired(s);
                    }
                    let i = s.ints.remove(0);
                    let st = get_stack(&s, t);
                    if let Some(n) = stack_op(op, &st, i) {
                        set_stack(&mut s, t, n);
                    }
                    return fired(s);
                }
                "STACKDEPTH" => {
                    let d = get_stack(&s, t).len() as i32;
                    let d = if t == "INTEGER" { d + 1 } else { d };
                    s.ints.insert(0, d);
                    return fired(s);
                }
                "ID" => {
                    let id = match t {
                        "BOOLEAN" => 1,
                        "BOOLVECTOR" => 2,
                        "CODE" => 3,
                        "EXEC" => 4,
                        "FLOAT" => 5,
                        "FLOATVECTOR" => 6,
                        "INTEGER" => 9,
                        "INTVECTOR" => 10,
                        "NAME" => 11,
                        _ => unreachable!(),
                    };
                    s.ints.insert(0, id);
                    return fired(s);
                }
                "DEFINE" if t != "NAME" => {
                    // pop NAME (missing: stop), pop top of T (missing: stop, name consumed)
                    if s.names.is_empty() {
                        return fired(s);
                    }
                    let n = s.names.remove(0);
                    let mut st = get_stack(&s, t);
                    if st.is_empty() {
                        // name consumed or left: both "at most consumed operands"
                        let consumed = s.clone();
                        return Expect::either(consumed, s0.clone());
                    }
                    let v = st.remove(0);
                    set_stack(&mut s, t, st);
                    s.bindings.insert(n, v);
                    return fired(s);
                }
                _ => {}
            }
        }
    }
    match name {
        "NOOP" | "CODE.NOOP" | "SENSOR.READ" | "MyInstruction" | "X.Y.Z" => fired(s),
        "INTEGER.DDUP" => {
            if s.ints.len() >= 2 {
                let (a, b) = (s.ints[0], s.ints[1]);
                s.ints.insert(0, b);
                s.ints.insert(0, a);
            }
            fired(s)
        }
        // ----- scalars (section C)
        "BOOLEAN.=" | "BOOLEAN.AND" | "BOOLEAN.OR" => {
            if s.bools.len() >= 2 {
                let b = s.bools.remove(0);
                let a = s.bools.remove(0);
                s.bools.insert(
                    0,
                    match name {
                        "BOOLEAN.=" => a == b,
                        "BOOLEAN.AND" => a && b,
                        _ => a || b,
                    },
                );
            }
            fired(s)
        }
        "BOOLEAN.NOT" => {
            if !s.bools.is_empty() {
                s.bools[0] = !s.bools[0];
            }
            fired(s)
        }
        "BOOLEAN.FROMFLOAT" => {
            if s.floats.is_empty() {
                return fired(s);
            }
            let x = s.floats[0];
            let v = x != 0.0; // documented: FALSE if 0.0, TRUE otherwise
            let mut kept = s.clone();
            kept.bools.insert(0, v);
            s.floats.remove(0);
            s.bools.insert(0, v);
            Expect::either(s, kept)
        }
        "BOOLEAN.FROMINTEGER" => {
            if s.ints.is_empty() {
                return fired(s);
            }
            let v = s.ints[0] != 0;
            let mut kept = s.clone();
            kept.bools.insert(0, v);
            s.ints.remove(0);
            s.bools.insert(0, v);
            Expect::either(s, kept)
        }
        "INTEGER.+" | "INTEGER.-" | "INTEGER.*" => {
            if s.ints.len() < 2 {
                return fired(s);
            }
            let b = s.ints.remove(0) as i64;
            let a = s.ints.remove(0) as i64;
            let r = match name {
                "INTEGER.+" => a + b,
                "INTEGER.-" => a - b,
                _ => a * b,
            };
            if r >= i32::MIN as i64 && r <= i32::MAX as i64 {
                s.ints.insert(0, r as i32);
                fired(s)
            } else {
                s.ints.insert(0, 0);
                Expect::wild(s, Wild { int_top_any: true, ..Default::default() })
            }
        }
        "INTEGER./" | "INTEGER.%" => {
            if s.ints.len() < 2 {
                return fired(s);
            }
            let b = s.ints.remove(0);
            let a = s.ints.remove(0);
            if b == 0 {
                // no result; operands both consumed or both intact
                return Expect::either(s, s0.clone());
            }
            if a == i32::MIN && b == -1 {
                s.ints.insert(0, 0);
                return Expect::wild(s, Wild { int_top_any: true, ..Default::default() });
            }
            // truncating quotient; truncated remainder (pinned by integer_modulus_pushes_result)
            let (a, b) = (a as i64, b as i64);
            let q = a / b;
            let r = a - q * b;
            s.ints.insert(0, if name == "INTEGER./" { q as i32 } else { r as i32 });
            fired(s)
        }
        "INTEGER.<" | "INTEGER.=" | "INTEGER.>" => {
            if s.ints.len() < 2 {
                return fired(s);
            }
            let b = s.ints.remove(0);
            let a = s.ints.remove(0);
            s.bools.insert(
                0,
                match name {
                    "INTEGER.<" => a < b,
                    "INTEGER.=" => a == b,
                    _ => a > b,
                },
            );
            fired(s)
        }
        "INTEGER.ABS" => {
            if s.ints.is_empty() {
                return fired(s);
            }
            if s.ints[0] == i32::MIN {
                return Expect::wild(s, Wild { int_top_any: true, ..Default::default() });
            }
            s.ints[0] = (s.ints[0] as i64).abs() as i32;
            fired(s)
        }
        "INTEGER.MAX" | "INTEGER.MIN" => {
            if s.ints.len() < 2 {
                return fired(s);
            }
            let b = s.ints.remove(0);
            let a = s.ints.remove(0);
            s.ints.insert(0, if name == "INTEGER.MAX" { a.max(b) } else { a.min(b) });
            fired(s)
        }
        "INTEGER.FROMBOOLEAN" => {
            if s.bools.is_empty() {
                return fired(s);
            }
            let b = s.bools.remove(0);
            s.ints.insert(0, if b { 1 } else { 0 });
            fired(s)
        }
        "INTEGER.FROMFLOAT" => {
            if s.floats.is_empty() {
                return fired(s);
            }
            let x = s.floats.remove(0);
            let t = (x as f64).trunc();
            if x.is_nan() || t < -2147483648.0 || t >= 2147483648.0 {
                s.ints.insert(0, 0);
                Expect::wild(s, Wild { int_top_any: true, ..Default::default() })
            } else {
                s.ints.insert(0, t as i64 as i32);
                fired(s)
            }
        }
        "FLOAT.+" | "FLOAT.-" | "FLOAT.*" => {
            if s.floats.len() < 2 {
                return fired(s);
            }
            let b = s.floats.remove(0);
            let a = s.floats.remove(0);
            s.floats.insert(
                0,
                match name {
                    "FLOAT.+" => a + b,
                    "FLOAT.-" => a - b,
                    _ => a * b,
                },
            );
            fired(s)
        }
        "FLOAT./" | "FLOAT.%" => {
            if s.floats.len() < 2 {
                return fired(s);
            }
            let b = s.floats.remove(0);
            let a = s.floats.remove(0);
            if b == 0.0 {
                return Expect::either(s, s0.clone());
            }
            s.floats.insert(0, if name == "FLOAT./" { a / b } else { libm_fmod(a, b) });
            fired(s)
        }
        "FLOAT.<" | "FLOAT.=" | "FLOAT.>" => {
            if s.floats.len() < 2 {
                return fired(s);
            }
            let b = s.floats.remove(0);
            let a = s.floats.remove(0);
            s.bools.insert(
                0,
                match name {
                    "FLOAT.<" => a < b,
                    "FLOAT.=" => a == b,
                    _ => a > b,
                },
            );
            fired(s)
        }
        "FLOAT.SIN" | "FLOAT.COS" | "FLOAT.TAN" | "FLOAT.EXP" => {
            if s.floats.is_empty() {
                return fired(s);
            }
            let x = s.floats[0] as f64;
            let r = match name {
                "FLOAT.SIN" => x.sin(),
                "FLOAT.COS" => x.cos(),
                "FLOAT.TAN" => x.tan(),
                _ => x.exp(),
            } as f32;
            s.floats[0] = r;
            let tol = if r.is_finite() { (4.0 * ulp(r)).max(1e-6 * r.abs()) } else { 0.0 };
            if name == "FLOAT.EXP" && !r.is_finite() {
                // overflow boundary: f32 exp may give MAX-ish or inf within rounding
                let mut alt = s.clone();
                alt.floats[0] = f32::MAX;
                return Expect::OneOf(vec![
                    Alt { state: s, wild: Wild::default() },
                    Alt { state: alt, wild: Wild { float_top_tol: Some(f32::MAX * 1e-6), ..Default::default() } },
                ]);
            }
            Expect::wild(s, Wild { float_top_tol: Some(tol), ..Default::default() })
        }
        "FLOAT.MAX" | "FLOAT.MIN" => {
            if s.floats.len() < 2 {
                return fired(s);
            }
            let b = s.floats.remove(0);
            let a = s.floats.remove(0);
            if a.is_nan() || b.is_nan() || a == b {
                let mut s2 = s.clone();
                s.floats.insert(0, a);
                s2.floats.insert(0, b);
                return Expect::either(s, s2);
            }
            let r = if name == "FLOAT.MAX" { if a > b { a } else { b } } else if a < b { a } else { b };
            s.floats.insert(0, r);
            fired(s)
        }
        "FLOAT.FROMBOOLEAN" => {
            if s.bools.is_empty() {
                return fired(s);
            }
            let b = s.bools.remove(0);
            s.floats.insert(0, if b { 1.0 } else { 0.0 });
            fired(s)
        }
        "FLOAT.FROMINTEGER" => {
            if s.ints.is_empty() {
                return fired(s);
            }
            let i = s.ints.remove(0);
            s.floats.insert(0, i as f64 as f32);
            fired(s)
        }
        "NAME.=" => {
            if s.names.len() < 2 {
                return fired(s);
            }
            let b = s.names.remove(0);
            let a = s.names.remove(0);
            s.bools.insert(0, a == b);
            fired(s)
        }
        "NAME.CAT" => {
            if s.names.len() < 2 {
                return fired(s);
            }
            let b = s.names.remove(0);
            let a = s.names.remove(0);
            s.names.insert(0, format!("{} {}", a, b));
            fired(s)
        }
        "NAME.QUOTE" => {
            s.quote_name = true;
            fired(s)
        }
        "NAME.SEND" => {
            s.send_name = true;
            fired(s)
        }
        "CODE.FROMBOOLEAN" => {
            if !s.bools.is_empty() {
                let b = s.bools.remove(0);
                s.code.insert(0, ItemSpec::Bool(b));
            }
            fired(s)
        }
        "CODE.FROMFLOAT" => {
            if !s.floats.is_empty() {
                let b = s.floats.remove(0);
                s.code.insert(0, ItemSpec::Float(b));
            }
            fired(s)
        }
        "CODE.FROMINTEGER" => {
            if !s.ints.is_empty() {
                let b = s.ints.remove(0);
                s.code.insert(0, ItemSpec::Int(b));
            }
            fired(s)
        }
        "CODE.FROMNAME" => {
            if !s.names.is_empty() {
                let b = s.names.remove(0);
                s.code.insert(0, ItemSpec::Name(b));
            }
            fired(s)
        }
        _ => crate::refmodel2::ref_instr2(s0, name),
    }
}

pub fn ulp(x: f32) -> f32 {
    if !x.is_finite() {
        return 0.0;
    }
    let a = x.abs();
    if a == 0.0 {
        return f32::MIN_POSITIVE;
    }
    let next = f32::from_bits(a.to_bits() + 1);
    next - a
}

/// IEEE fmod evaluated exactly in f64 (the f64 fmod of two f32 values is exact and representable
/// in f32, because |result| < |b| and it is a multiple of the smaller operand's ulp).
pub fn libm_fmod(a: f32, b: f32) -> f32 {
    ((a as f64) % (b as f64)) as f32
}
