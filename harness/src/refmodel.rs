//! Reference semantics (see /verif/design/reference-semantics.md). Pure functions on spec
//! values; never calls the function under test.

use crate::spec::ItemSpec;

/// pushr's documented print format for code items: lists as "( a b )", booleans upper case,
/// floats with three decimals, vectors as "[a,b]" without type prefix.
pub fn print_item(t: &ItemSpec) -> String {
    match t {
        ItemSpec::List(v) => {
            let inner: Vec<String> = v.iter().map(print_item).collect();
            format!("( {} )", inner.join(" "))
        }
        ItemSpec::Instr(n) | ItemSpec::Name(n) => n.clone(),
        ItemSpec::Int(v) => v.to_string(),
        ItemSpec::Float(v) => format!("{:.3}", v),
        ItemSpec::Bool(v) => if *v { "TRUE".into() } else { "FALSE".into() },
        ItemSpec::BVec(v) => format!("[{}]", v.iter().map(|b| if *b { "TRUE" } else { "FALSE" }).collect::<Vec<_>>().join(",")),
        ItemSpec::IVec(v) => format!("[{}]", v.iter().map(|b| b.to_string()).collect::<Vec<_>>().join(",")),
        ItemSpec::FVec(v) => format!("[{}]", v.iter().map(|b| format!("{:.3}", b)).collect::<Vec<_>>().join(",")),
        ItemSpec::Index(c, d) => format!("{}/{}", c, d),
        ItemSpec::Graph(_) => "<graph>".to_string(),
    }
}

/// clamp(i, d) = max(min(d-1, i), 0) evaluated in i64
pub fn clamp(i: i32, d: usize) -> usize {
    let v = (i as i64).min(d as i64 - 1).max(0);
    v as usize
}
