//! Plain-data description of a PushState (StateSpec) and of code items (ItemSpec).
//!
//! Conventions (reference-semantics.md, section A): every stack is written TOP FIRST,
//! i.e. element 0 of a `Vec` is the top of the stack. A list `List[x0, x1, ..]` prints as
//! `( x0 x1 .. )` and executes x0 first.
//!
//! `build()` creates the real `PushState` through public fields/methods only; `snapshot()`
//! reads a real state back into a StateSpec. Floats compare by class (NaN == NaN, +0 == -0).

use pushr::push::buffer::PushBuffer;
use pushr::push::graph::Graph;
use pushr::push::index::Index;
use pushr::push::io::PushMessage;
use pushr::push::item::{Item, PushType};
use pushr::push::stack::PushStack;
use pushr::push::state::PushState;
use pushr::push::vector::{BoolVector, FloatVector, IntVector};
use serde_json::{json, Value};
use std::collections::BTreeMap;

pub fn feq(a: f32, b: f32) -> bool {
    (a.is_nan() && b.is_nan()) || a == b
}
/// identity of a float as a stored value: NaN is NaN, and the sign of a zero counts (a snapshot
/// is compared with this; `feq` is the numeric equality used for matching code items)
pub fn fsame(a: f32, b: f32) -> bool {
    (a.is_nan() && b.is_nan()) || a.to_bits() == b.to_bits()
}
pub fn fvec_same(a: &[f32], b: &[f32]) -> bool {
    a.len() == b.len() && a.iter().zip(b).all(|(x, y)| fsame(*x, *y))
}
/// identity of code items (strict on floats), as opposed to `==` (numeric on floats)
pub fn item_same(a: &ItemSpec, b: &ItemSpec) -> bool {
    match (a, b) {
        (ItemSpec::List(x), ItemSpec::List(y)) => items_same(x, y),
        (ItemSpec::Float(x), ItemSpec::Float(y)) => fsame(*x, *y),
        (ItemSpec::FVec(x), ItemSpec::FVec(y)) => fvec_same(x, y),
        _ => a == b,
    }
}
pub fn items_same(a: &[ItemSpec], b: &[ItemSpec]) -> bool {
    a.len() == b.len() && a.iter().zip(b).all(|(x, y)| item_same(x, y))
}
pub fn fvec_eq(a: &[f32], b: &[f32]) -> bool {
    a.len() == b.len() && a.iter().zip(b).all(|(x, y)| feq(*x, *y))
}
fn fbits(a: f32) -> u32 {
    if a.is_nan() {
        0x7fc0_0000
    } else if a == 0.0 {
        0
    } else {
        a.to_bits()
    }
}

#[derive(Clone, Debug, Default)]
pub struct GraphSpec {
    /// (id, state), sorted by id
    pub nodes: Vec<(usize, i32)>,
    /// (origin, destination, weight), sorted by (origin, destination)
    pub edges: Vec<(usize, usize, f32)>,
}
impl PartialEq for GraphSpec {
    fn eq(&self, o: &Self) -> bool {
        self.nodes == o.nodes
            && self.edges.len() == o.edges.len()
            && self
                .edges
                .iter()
                .zip(&o.edges)
                .all(|(a, b)| a.0 == b.0 && a.1 == b.1 && feq(a.2, b.2))
    }
}
impl GraphSpec {
    pub fn from_graph(g: &Graph) -> GraphSpec {
        let mut nodes: Vec<(usize, i32)> =
            g.nodes.iter().map(|(k, n)| (*k, n.get_state())).collect();
        nodes.sort();
        let mut edges = vec![];
        for (dst, inc) in g.edges.iter() {
            for e in inc {
                edges.push((e.get_origin_id(), *dst, e.get_weight()));
            }
        }
        edges.sort_by(|a, b| (a.0, a.1).cmp(&(b.0, b.1)));
        GraphSpec { nodes, edges }
    }
    /// Same graph with node ids renamed to their rank (creation order).
    pub fn canonical(&self) -> GraphSpec {
        let rank: BTreeMap<usize, usize> =
            self.nodes.iter().enumerate().map(|(i, (id, _))| (*id, i)).collect();
        let nodes = self.nodes.iter().enumerate().map(|(i, (_, s))| (i, *s)).collect();
        let mut edges: Vec<(usize, usize, f32)> = self
            .edges
            .iter()
            .map(|(o, d, w)| {
                (*rank.get(o).unwrap_or(&usize::MAX), *rank.get(d).unwrap_or(&usize::MAX), *w)
            })
            .collect();
        edges.sort_by(|a, b| (a.0, a.1).cmp(&(b.0, b.1)));
        GraphSpec { nodes, edges }
    }
    pub fn to_json(&self) -> Value {
        json!({"nodes": self.nodes.iter().map(|(i,s)| json!([i,s])).collect::<Vec<_>>(),
               "edges": self.edges.iter().map(|(o,d,w)| json!([o,d,fjson(*w)])).collect::<Vec<_>>()})
    }
}

#[derive(Clone, Debug)]
pub enum ItemSpec {
    List(Vec<ItemSpec>),
    Instr(String),
    Name(String),
    Int(i32),
    Float(f32),
    Bool(bool),
    BVec(Vec<bool>),
    IVec(Vec<i32>),
    FVec(Vec<f32>),
    Index(usize, usize),
    Graph(GraphSpec),
}
use ItemSpec as I;

impl PartialEq for ItemSpec {
    fn eq(&self, o: &Self) -> bool {
        match (self, o) {
            (I::List(a), I::List(b)) => a == b,
            (I::Instr(a), I::Instr(b)) => a == b,
            (I::Name(a), I::Name(b)) => a == b,
            (I::Int(a), I::Int(b)) => a == b,
            (I::Float(a), I::Float(b)) => feq(*a, *b),
            (I::Bool(a), I::Bool(b)) => a == b,
            (I::BVec(a), I::BVec(b)) => a == b,
            (I::IVec(a), I::IVec(b)) => a == b,
            (I::FVec(a), I::FVec(b)) => fvec_eq(a, b),
            (I::Index(a, b), I::Index(c, d)) => a == c && b == d,
            (I::Graph(a), I::Graph(b)) => a == b,
            _ => false,
        }
    }
}

impl ItemSpec {
    pub fn instr(s: &str) -> ItemSpec {
        I::Instr(s.to_string())
    }
    pub fn name(s: &str) -> ItemSpec {
        I::Name(s.to_string())
    }
    pub fn is_list(&self) -> bool {
        matches!(self, I::List(_))
    }
    /// number of points
    pub fn points(&self) -> usize {
        match self {
            I::List(v) => 1 + v.iter().map(|x| x.points()).sum::<usize>(),
            _ => 1,
        }
    }
    pub fn depth(&self) -> usize {
        match self {
            I::List(v) => 1 + v.iter().map(|x| x.depth()).max().unwrap_or(0),
            _ => 0,
        }
    }
    /// scalar cells (for the resource envelope)
    pub fn cells(&self) -> usize {
        match self {
            I::List(v) => 1 + v.iter().map(|x| x.cells()).sum::<usize>(),
            I::BVec(v) => 1 + v.len(),
            I::IVec(v) => 1 + v.len(),
            I::FVec(v) => 1 + v.len(),
            I::Graph(g) => 1 + g.nodes.len() + g.edges.len(),
            I::Name(s) | I::Instr(s) => 1 + s.len() / 8,
            _ => 1,
        }
    }
    /// pre-order sequence of sub-items (index 0 = the item itself)
    pub fn preorder(&self) -> Vec<&ItemSpec> {
        let mut out = vec![];
        fn rec<'a>(t: &'a ItemSpec, out: &mut Vec<&'a ItemSpec>) {
            out.push(t);
            if let I::List(v) = t {
                for c in v {
                    rec(c, out);
                }
            }
        }
        rec(self, &mut out);
        out
    }
    /// all atoms (non-list sub-items) in pre-order
    pub fn atoms(&self) -> Vec<&ItemSpec> {
        self.preorder().into_iter().filter(|x| !x.is_list()).collect()
    }

    pub fn to_item(&self) -> Item {
        match self {
            I::List(v) => {
                // first printed element must be the top of the inner stack = last vec element
                let items: Vec<Item> = v.iter().rev().map(|x| x.to_item()).collect();
                Item::list(items)
            }
            I::Instr(n) => Item::instruction(n.clone()),
            I::Name(n) => Item::name(n.clone()),
            I::Int(v) => Item::int(*v),
            I::Float(v) => Item::float(*v),
            I::Bool(v) => Item::bool(*v),
            I::BVec(v) => Item::boolvec(BoolVector::new(v.clone())),
            I::IVec(v) => Item::intvec(IntVector::new(v.clone())),
            I::FVec(v) => Item::floatvec(FloatVector::new(v.clone())),
            I::Index(c, d) => {
                let mut ix = Index::new(*d);
                ix.current = *c;
                Item::index(ix)
            }
            I::Graph(g) => Item::Literal { push_type: PushType::Graph { val: build_graph(g).0 } },
        }
    }
    pub fn from_item(it: &Item) -> ItemSpec {
        match it {
            Item::List { items } => {
                let mut v = Vec::with_capacity(items.size());
                for i in 0..items.size() {
                    v.push(ItemSpec::from_item(items.get(i).unwrap()));
                }
                I::List(v)
            }
            Item::InstructionMeta { name } => I::Instr(name.clone()),
            Item::Identifier { name } => I::Name(name.clone()),
            Item::Literal { push_type } => match push_type {
                PushType::Bool { val } => I::Bool(*val),
                PushType::Int { val } => I::Int(*val),
                PushType::Float { val } => I::Float(*val),
                PushType::Index { val } => I::Index(val.current, val.destination),
                PushType::BoolVector { val } => I::BVec(val.values.clone()),
                PushType::IntVector { val } => I::IVec(val.values.clone()),
                PushType::FloatVector { val } => I::FVec(val.values.clone()),
                PushType::Graph { val } => I::Graph(GraphSpec::from_graph(val)),
            },
        }
    }
    /// Program text as pushr prints it, except that vectors carry their type prefix so the
    /// text is parseable (used for rendering samples and for the parser checks).
    pub fn render(&self) -> String {
        match self {
            I::List(v) => {
                if v.is_empty() {
                    "( )".to_string()
                } else {
                    format!("( {} )", v.iter().map(|x| x.render()).collect::<Vec<_>>().join(" "))
                }
            }
            I::Instr(n) | I::Name(n) => n.clone(),
            I::Int(v) => v.to_string(),
            I::Float(v) => fmt_float(*v),
            I::Bool(v) => if *v { "TRUE".into() } else { "FALSE".into() },
            I::BVec(v) => format!(
                "BOOL[{}]",
                v.iter().map(|b| if *b { "1" } else { "0" }).collect::<Vec<_>>().join(",")
            ),
            I::IVec(v) => {
                format!("INT[{}]", v.iter().map(|b| b.to_string()).collect::<Vec<_>>().join(","))
            }
            I::FVec(v) => {
                format!("FLOAT[{}]", v.iter().map(|b| fmt_float(*b)).collect::<Vec<_>>().join(","))
            }
            I::Index(c, d) => format!("<INDEX {}/{}>", c, d),
            I::Graph(g) => format!("<GRAPH n={} e={}>", g.nodes.len(), g.edges.len()),
        }
    }
    pub fn to_json(&self) -> Value {
        match self {
            I::List(v) => json!({"list": v.iter().map(|x| x.to_json()).collect::<Vec<_>>()}),
            I::Instr(n) => json!({"instr": n}),
            I::Name(n) => json!({"name": n}),
            I::Int(v) => json!({"int": v}),
            I::Float(v) => json!({"float": fjson(*v)}),
            I::Bool(v) => json!({"bool": v}),
            I::BVec(v) => json!({"bvec": v}),
            I::IVec(v) => json!({"ivec": v}),
            I::FVec(v) => json!({"fvec": v.iter().map(|x| fjson(*x)).collect::<Vec<_>>()}),
            I::Index(c, d) => json!({"index": [c, d]}),
            I::Graph(g) => json!({"graph": g.to_json()}),
        }
    }
    pub fn from_json(v: &Value) -> Option<ItemSpec> {
        let o = v.as_object()?;
        let (k, x) = o.iter().next()?;
        Some(match k.as_str() {
            "list" => I::List(x.as_array()?.iter().map(ItemSpec::from_json).collect::<Option<Vec<_>>>()?),
            "instr" => I::Instr(x.as_str()?.to_string()),
            "name" => I::Name(x.as_str()?.to_string()),
            "int" => I::Int(x.as_i64()? as i32),
            "float" => I::Float(fparse(x)?),
            "bool" => I::Bool(x.as_bool()?),
            "bvec" => I::BVec(x.as_array()?.iter().map(|b| b.as_bool()).collect::<Option<Vec<_>>>()?),
            "ivec" => I::IVec(x.as_array()?.iter().map(|b| b.as_i64().map(|z| z as i32)).collect::<Option<Vec<_>>>()?),
            "fvec" => I::FVec(x.as_array()?.iter().map(fparse).collect::<Option<Vec<_>>>()?),
            "index" => {
                let a = x.as_array()?;
                I::Index(a.get(0)?.as_u64()? as usize, a.get(1)?.as_u64()? as usize)
            }
            "graph" => I::Graph(graph_from_json(x)?),
            _ => return None,
        })
    }
    pub fn hash_into(&self, h: &mut Fnv) {
        match self {
            I::List(v) => {
                h.u8(1);
                h.u64(v.len() as u64);
                for x in v {
                    x.hash_into(h);
                }
            }
            I::Instr(n) => {
                h.u8(2);
                h.str(n)
            }
            I::Name(n) => {
                h.u8(3);
                h.str(n)
            }
            I::Int(v) => {
                h.u8(4);
                h.u64(*v as u32 as u64)
            }
            I::Float(v) => {
                h.u8(5);
                h.u64(fbits(*v) as u64)
            }
            I::Bool(v) => {
                h.u8(6);
                h.u8(*v as u8)
            }
            I::BVec(v) => {
                h.u8(7);
                h.u64(v.len() as u64);
                for b in v {
                    h.u8(*b as u8)
                }
            }
            I::IVec(v) => {
                h.u8(8);
                h.u64(v.len() as u64);
                for b in v {
                    h.u64(*b as u32 as u64)
                }
            }
            I::FVec(v) => {
                h.u8(9);
                h.u64(v.len() as u64);
                for b in v {
                    h.u64(fbits(*b) as u64)
                }
            }
            I::Index(c, d) => {
                h.u8(10);
                h.u64(*c as u64);
                h.u64(*d as u64)
            }
            I::Graph(g) => {
                h.u8(11);
                let g = g.canonical();
                for (i, s) in &g.nodes {
                    h.u64(*i as u64);
                    h.u64(*s as u32 as u64)
                }
                for (o, d, w) in &g.edges {
                    h.u64(*o as u64);
                    h.u64(*d as u64);
                    h.u64(fbits(*w) as u64)
                }
            }
        }
    }
}

fn graph_from_json(x: &Value) -> Option<GraphSpec> {
    let nodes = x
        .get("nodes")?
        .as_array()?
        .iter()
        .map(|n| Some((n.get(0)?.as_u64()? as usize, n.get(1)?.as_i64()? as i32)))
        .collect::<Option<Vec<_>>>()?;
    let edges = x
        .get("edges")?
        .as_array()?
        .iter()
        .map(|n| Some((n.get(0)?.as_u64()? as usize, n.get(1)?.as_u64()? as usize, fparse(n.get(2)?)?)))
        .collect::<Option<Vec<_>>>()?;
    Some(GraphSpec { nodes, edges })
}

/// Float text used by `render()`: full round-trip precision so that the parser sees the same
/// f32 (pushr's own printer uses three decimals; that one is what C11 is about).
pub fn fmt_float(v: f32) -> String {
    if v.is_nan() {
        "NaN".into()
    } else if v.is_infinite() {
        if v > 0.0 { "inf".into() } else { "-inf".into() }
    } else {
        let s = format!("{:?}", v);
        s
    }
}
/// JSON has no NaN/inf: floats are stored as strings of their bit pattern-preserving text.
pub fn fjson(v: f32) -> Value {
    Value::String(fmt_float(v))
}
pub fn fparse(v: &Value) -> Option<f32> {
    match v {
        Value::String(s) => s.parse::<f32>().ok(),
        Value::Number(n) => n.as_f64().map(|x| x as f32),
        _ => None,
    }
}

/// Build a real graph from a spec whose node ids are ORDINALS; returns the graph and the
/// ordinal -> real id map.
pub fn build_graph(g: &GraphSpec) -> (Graph, Vec<usize>) {
    let mut gr = Graph::new();
    let mut ids = vec![];
    for (_, st) in &g.nodes {
        ids.push(gr.add_node(*st));
    }
    for (o, d, w) in &g.edges {
        if *o < ids.len() && *d < ids.len() {
            gr.add_edge(ids[*o], ids[*d], *w);
        }
    }
    (gr, ids)
}

#[derive(Clone, Debug, PartialEq, Default)]
pub struct MsgSpec {
    pub header: Vec<i32>,
    pub body: Vec<bool>,
}

#[derive(Clone, Debug)]
pub struct ConfigSpec {
    pub max_random_float: f32,
    pub min_random_float: f32,
    pub max_random_integer: i32,
    pub min_random_integer: i32,
    pub eval_push_limit: i32,
    pub eval_time_limit: u64,
    pub growth_cap: usize,
    pub new_erc_name_probability: f32,
    pub max_points_in_random_expressions: i32,
    pub max_points_in_program: i32,
}
impl Default for ConfigSpec {
    fn default() -> Self {
        ConfigSpec {
            max_random_float: 1.0,
            min_random_float: -1.0,
            max_random_integer: 10,
            min_random_integer: -10,
            eval_push_limit: 1000,
            eval_time_limit: 5000,
            growth_cap: 500,
            new_erc_name_probability: 0.001,
            max_points_in_random_expressions: 25,
            max_points_in_program: 100,
        }
    }
}
impl PartialEq for ConfigSpec {
    fn eq(&self, o: &Self) -> bool {
        feq(self.max_random_float, o.max_random_float)
            && feq(self.min_random_float, o.min_random_float)
            && self.max_random_integer == o.max_random_integer
            && self.min_random_integer == o.min_random_integer
            && self.eval_push_limit == o.eval_push_limit
            && self.eval_time_limit == o.eval_time_limit
            && self.growth_cap == o.growth_cap
            && feq(self.new_erc_name_probability, o.new_erc_name_probability)
            && self.max_points_in_random_expressions == o.max_points_in_random_expressions
            && self.max_points_in_program == o.max_points_in_program
    }
}

/// All stacks TOP FIRST. Queues (input/output) OLDEST FIRST. Graph stack TOP FIRST.
#[derive(Clone, Debug, Default)]
pub struct StateSpec {
    pub bools: Vec<bool>,
    pub ints: Vec<i32>,
    pub floats: Vec<f32>,
    pub names: Vec<String>,
    pub code: Vec<ItemSpec>,
    pub exec: Vec<ItemSpec>,
    pub bvecs: Vec<Vec<bool>>,
    pub ivecs: Vec<Vec<i32>>,
    pub fvecs: Vec<Vec<f32>>,
    pub index: Vec<(usize, usize)>,
    pub input: Vec<MsgSpec>,
    pub output: Vec<MsgSpec>,
    pub graphs: Vec<GraphSpec>,
    pub bindings: BTreeMap<String, ItemSpec>,
    pub quote_name: bool,
    pub send_name: bool,
    pub config: ConfigSpec,
}

impl PartialEq for StateSpec {
    fn eq(&self, o: &Self) -> bool {
        self.diff(o).is_none()
    }
}

pub const STACKS: [&str; 17] = [
    "BOOLEAN", "INTEGER", "FLOAT", "NAME", "CODE", "EXEC", "BOOLVECTOR", "INTVECTOR",
    "FLOATVECTOR", "INDEX", "INPUT", "OUTPUT", "GRAPH", "BINDINGS", "QUOTE", "SEND", "CONFIG",
];

impl StateSpec {
    /// Name of the first component that differs, with a short description; None if equal.
    pub fn diff(&self, o: &Self) -> Option<String> {
        for s in STACKS.iter() {
            if !self.component_eq(o, s) {
                return Some(format!(
                    "{}: {} vs {}",
                    s,
                    self.component_text(s),
                    o.component_text(s)
                ));
            }
        }
        None
    }
    pub fn differing_components(&self, o: &Self) -> Vec<&'static str> {
        STACKS.iter().filter(|s| !self.component_eq(o, s)).cloned().collect()
    }
    pub fn component_eq(&self, o: &Self, c: &str) -> bool {
        match c {
            "BOOLEAN" => self.bools == o.bools,
            "INTEGER" => self.ints == o.ints,
            "FLOAT" => fvec_same(&self.floats, &o.floats),
            "NAME" => self.names == o.names,
            "CODE" => items_same(&self.code, &o.code),
            "EXEC" => items_same(&self.exec, &o.exec),
            "BOOLVECTOR" => self.bvecs == o.bvecs,
            "INTVECTOR" => self.ivecs == o.ivecs,
            "FLOATVECTOR" => {
                self.fvecs.len() == o.fvecs.len()
                    && self.fvecs.iter().zip(&o.fvecs).all(|(a, b)| fvec_same(a, b))
            }
            "INDEX" => self.index == o.index,
            "INPUT" => self.input == o.input,
            "OUTPUT" => self.output == o.output,
            "GRAPH" => self.graphs == o.graphs,
            "BINDINGS" => self.bindings.len() == o.bindings.len() && self.bindings.iter().zip(o.bindings.iter()).all(|((k1, v1), (k2, v2))| k1 == k2 && item_same(v1, v2)),
            "QUOTE" => self.quote_name == o.quote_name,
            "SEND" => self.send_name == o.send_name,
            "CONFIG" => self.config == o.config,
            _ => panic!("unknown component {}", c),
        }
    }
    pub fn component_text(&self, c: &str) -> String {
        fn j<T: std::fmt::Debug>(v: &[T]) -> String {
            format!("{:?}", v)
        }
        let s = match c {
            "BOOLEAN" => j(&self.bools),
            "INTEGER" => j(&self.ints),
            "FLOAT" => j(&self.floats),
            "NAME" => j(&self.names),
            "CODE" => format!("[{}]", self.code.iter().map(|x| x.render()).collect::<Vec<_>>().join(" | ")),
            "EXEC" => format!("[{}]", self.exec.iter().map(|x| x.render()).collect::<Vec<_>>().join(" | ")),
            "BOOLVECTOR" => j(&self.bvecs),
            "INTVECTOR" => j(&self.ivecs),
            "FLOATVECTOR" => j(&self.fvecs),
            "INDEX" => j(&self.index),
            "INPUT" => j(&self.input),
            "OUTPUT" => j(&self.output),
            "GRAPH" => j(&self.graphs),
            "BINDINGS" => format!(
                "{{{}}}",
                self.bindings.iter().map(|(k, v)| format!("{}=>{}", k, v.render())).collect::<Vec<_>>().join(", ")
            ),
            "QUOTE" => self.quote_name.to_string(),
            "SEND" => self.send_name.to_string(),
            "CONFIG" => format!("{:?}", self.config),
            _ => String::new(),
        };
        if s.len() > 400 {
            format!("{}…", s.chars().take(400).collect::<String>())
        } else {
            s
        }
    }
    /// Depth of one of the 13 stack-like components.
    pub fn depth_of(&self, c: &str) -> usize {
        match c {
            "BOOLEAN" => self.bools.len(),
            "INTEGER" => self.ints.len(),
            "FLOAT" => self.floats.len(),
            "NAME" => self.names.len(),
            "CODE" => self.code.len(),
            "EXEC" => self.exec.len(),
            "BOOLVECTOR" => self.bvecs.len(),
            "INTVECTOR" => self.ivecs.len(),
            "FLOATVECTOR" => self.fvecs.len(),
            "INDEX" => self.index.len(),
            "INPUT" => self.input.len(),
            "OUTPUT" => self.output.len(),
            "GRAPH" => self.graphs.len(),
            _ => 0,
        }
    }
    /// Sum of the nine main stack depths (the documented meaning of PushState::size()).
    pub fn main_size(&self) -> usize {
        self.bools.len()
            + self.ints.len()
            + self.floats.len()
            + self.names.len()
            + self.code.len()
            + self.exec.len()
            + self.bvecs.len()
            + self.ivecs.len()
            + self.fvecs.len()
    }
    /// Scalar cells of the whole state (resource envelope).
    pub fn cells(&self) -> usize {
        self.bools.len()
            + self.ints.len()
            + self.floats.len()
            + self.names.iter().map(|n| 1 + n.len() / 8).sum::<usize>()
            + self.code.iter().map(|x| x.cells()).sum::<usize>()
            + self.exec.iter().map(|x| x.cells()).sum::<usize>()
            + self.bvecs.iter().map(|x| 1 + x.len()).sum::<usize>()
            + self.ivecs.iter().map(|x| 1 + x.len()).sum::<usize>()
            + self.fvecs.iter().map(|x| 1 + x.len()).sum::<usize>()
            + self.index.len()
            + self.input.iter().map(|m| 1 + m.header.len() + m.body.len()).sum::<usize>()
            + self.output.iter().map(|m| 1 + m.header.len() + m.body.len()).sum::<usize>()
            + self.graphs.iter().map(|g| 1 + g.nodes.len() + g.edges.len()).sum::<usize>()
            + self.bindings.iter().map(|(_, v)| 1 + v.cells()).sum::<usize>()
    }

    /// Build the real state. Graph specs use ORDINAL node ids; the real ids of each graph
    /// (top first) are returned.
    pub fn build(&self) -> (PushState, Vec<Vec<usize>>) {
        let mut s = PushState::new();
        for v in self.bools.iter().rev() {
            s.bool_stack.push(*v);
        }
        for v in self.ints.iter().rev() {
            s.int_stack.push(*v);
        }
        for v in self.floats.iter().rev() {
            s.float_stack.push(*v);
        }
        for v in self.names.iter().rev() {
            s.name_stack.push(v.clone());
        }
        for v in self.code.iter().rev() {
            s.code_stack.push(v.to_item());
        }
        for v in self.exec.iter().rev() {
            s.exec_stack.push(v.to_item());
        }
        for v in self.bvecs.iter().rev() {
            s.bool_vector_stack.push(BoolVector::new(v.clone()));
        }
        for v in self.ivecs.iter().rev() {
            s.int_vector_stack.push(IntVector::new(v.clone()));
        }
        for v in self.fvecs.iter().rev() {
            s.float_vector_stack.push(FloatVector::new(v.clone()));
        }
        for (c, d) in self.index.iter().rev() {
            let mut ix = Index::new(*d);
            ix.current = *c;
            s.index_stack.push(ix);
        }
        for m in self.input.iter() {
            s.input_stack.push(PushMessage::new(
                IntVector::new(m.header.clone()),
                BoolVector::new(m.body.clone()),
            ));
        }
        for m in self.output.iter() {
            s.output_stack.push(PushMessage::new(
                IntVector::new(m.header.clone()),
                BoolVector::new(m.body.clone()),
            ));
        }
        let mut idmaps = vec![];
        for g in self.graphs.iter().rev() {
            let (gr, ids) = build_graph(g);
            s.graph_stack.push(gr);
            idmaps.push(ids);
        }
        idmaps.reverse();
        for (k, v) in self.bindings.iter() {
            s.name_bindings.insert(k.clone(), v.to_item());
        }
        s.quote_name = self.quote_name;
        s.send_name = self.send_name;
        let c = &self.config;
        s.configuration.max_random_float = c.max_random_float;
        s.configuration.min_random_float = c.min_random_float;
        s.configuration.max_random_integer = c.max_random_integer;
        s.configuration.min_random_integer = c.min_random_integer;
        s.configuration.eval_push_limit = c.eval_push_limit;
        s.configuration.eval_time_limit = c.eval_time_limit;
        s.configuration.growth_cap = c.growth_cap;
        s.configuration.new_erc_name_probability = c.new_erc_name_probability;
        s.configuration.max_points_in_random_expressions = c.max_points_in_random_expressions;
        s.configuration.max_points_in_program = c.max_points_in_program;
        (s, idmaps)
    }

    pub fn snapshot(s: &PushState) -> StateSpec {
        fn st<T: Clone + std::fmt::Display + PartialEq + pushr::push::stack::PushPrint, U>(
            p: &PushStack<T>,
            f: impl Fn(&T) -> U,
        ) -> Vec<U> {
            (0..p.size()).map(|i| f(p.get(i).unwrap())).collect()
        }
        fn q(b: &PushBuffer<PushMessage>) -> Vec<MsgSpec> {
            b.iter()
                .map(|m| MsgSpec { header: m.header.values.clone(), body: m.body.values.clone() })
                .collect()
        }
        let c = &s.configuration;
        StateSpec {
            bools: st(&s.bool_stack, |x| *x),
            ints: st(&s.int_stack, |x| *x),
            floats: st(&s.float_stack, |x| *x),
            names: st(&s.name_stack, |x| x.clone()),
            code: st(&s.code_stack, ItemSpec::from_item),
            exec: st(&s.exec_stack, ItemSpec::from_item),
            bvecs: st(&s.bool_vector_stack, |x| x.values.clone()),
            ivecs: st(&s.int_vector_stack, |x| x.values.clone()),
            fvecs: st(&s.float_vector_stack, |x| x.values.clone()),
            index: st(&s.index_stack, |x| (x.current, x.destination)),
            input: q(&s.input_stack),
            output: q(&s.output_stack),
            graphs: (0..s.graph_stack.size())
                .map(|i| GraphSpec::from_graph(s.graph_stack.get(i).unwrap()))
                .collect(),
            bindings: s
                .name_bindings
                .iter()
                .map(|(k, v)| (k.clone(), ItemSpec::from_item(v)))
                .collect(),
            quote_name: s.quote_name,
            send_name: s.send_name,
            config: ConfigSpec {
                max_random_float: c.max_random_float,
                min_random_float: c.min_random_float,
                max_random_integer: c.max_random_integer,
                min_random_integer: c.min_random_integer,
                eval_push_limit: c.eval_push_limit,
                eval_time_limit: c.eval_time_limit,
                growth_cap: c.growth_cap,
                new_erc_name_probability: c.new_erc_name_probability,
                max_points_in_random_expressions: c.max_points_in_random_expressions,
                max_points_in_program: c.max_points_in_program,
            },
        }
    }
    /// Snapshot with graph node ids renamed to ranks (for comparing two builds of one spec).
    pub fn canonical(mut self) -> StateSpec {
        self.graphs = self.graphs.iter().map(|g| g.canonical()).collect();
        self
    }

    pub fn to_json(&self) -> Value {
        let msgs = |v: &Vec<MsgSpec>| {
            v.iter().map(|m| json!({"header": m.header, "body": m.body})).collect::<Vec<_>>()
        };
        let c = &self.config;
        json!({
            "bools": self.bools, "ints": self.ints,
            "floats": self.floats.iter().map(|x| fjson(*x)).collect::<Vec<_>>(),
            "names": self.names,
            "code": self.code.iter().map(|x| x.to_json()).collect::<Vec<_>>(),
            "exec": self.exec.iter().map(|x| x.to_json()).collect::<Vec<_>>(),
            "bvecs": self.bvecs, "ivecs": self.ivecs,
            "fvecs": self.fvecs.iter().map(|v| v.iter().map(|x| fjson(*x)).collect::<Vec<_>>()).collect::<Vec<_>>(),
            "index": self.index.iter().map(|(a,b)| json!([a,b])).collect::<Vec<_>>(),
            "input": msgs(&self.input), "output": msgs(&self.output),
            "graphs": self.graphs.iter().map(|g| g.to_json()).collect::<Vec<_>>(),
            "bindings": self.bindings.iter().map(|(k,v)| json!([k, v.to_json()])).collect::<Vec<_>>(),
            "quote_name": self.quote_name, "send_name": self.send_name,
            "config": {
                "max_random_float": fjson(c.max_random_float), "min_random_float": fjson(c.min_random_float),
                "max_random_integer": c.max_random_integer, "min_random_integer": c.min_random_integer,
                "eval_push_limit": c.eval_push_limit, "eval_time_limit": c.eval_time_limit,
                "growth_cap": c.growth_cap, "new_erc_name_probability": fjson(c.new_erc_name_probability),
                "max_points_in_random_expressions": c.max_points_in_random_expressions,
                "max_points_in_program": c.max_points_in_program }
        })
    }
    pub fn from_json(v: &Value) -> Option<StateSpec> {
        let items = |k: &str| -> Option<Vec<ItemSpec>> {
            v.get(k)?.as_array()?.iter().map(ItemSpec::from_json).collect()
        };
        let msgs = |k: &str| -> Option<Vec<MsgSpec>> {
            v.get(k)?
                .as_array()?
                .iter()
                .map(|m| {
                    Some(MsgSpec {
                        header: m.get("header")?.as_array()?.iter().map(|x| x.as_i64().map(|z| z as i32)).collect::<Option<Vec<_>>>()?,
                        body: m.get("body")?.as_array()?.iter().map(|x| x.as_bool()).collect::<Option<Vec<_>>>()?,
                    })
                })
                .collect()
        };
        let c = v.get("config")?;
        Some(StateSpec {
            bools: v.get("bools")?.as_array()?.iter().map(|x| x.as_bool()).collect::<Option<Vec<_>>>()?,
            ints: v.get("ints")?.as_array()?.iter().map(|x| x.as_i64().map(|z| z as i32)).collect::<Option<Vec<_>>>()?,
            floats: v.get("floats")?.as_array()?.iter().map(fparse).collect::<Option<Vec<_>>>()?,
            names: v.get("names")?.as_array()?.iter().map(|x| x.as_str().map(|s| s.to_string())).collect::<Option<Vec<_>>>()?,
            code: items("code")?,
            exec: items("exec")?,
            bvecs: v.get("bvecs")?.as_array()?.iter().map(|a| a.as_array()?.iter().map(|x| x.as_bool()).collect::<Option<Vec<_>>>()).collect::<Option<Vec<_>>>()?,
            ivecs: v.get("ivecs")?.as_array()?.iter().map(|a| a.as_array()?.iter().map(|x| x.as_i64().map(|z| z as i32)).collect::<Option<Vec<_>>>()).collect::<Option<Vec<_>>>()?,
            fvecs: v.get("fvecs")?.as_array()?.iter().map(|a| a.as_array()?.iter().map(fparse).collect::<Option<Vec<_>>>()).collect::<Option<Vec<_>>>()?,
            index: v.get("index")?.as_array()?.iter().map(|a| Some((a.get(0)?.as_u64()? as usize, a.get(1)?.as_u64()? as usize))).collect::<Option<Vec<_>>>()?,
            input: msgs("input")?,
            output: msgs("output")?,
            graphs: v.get("graphs")?.as_array()?.iter().map(graph_from_json).collect::<Option<Vec<_>>>()?,
            bindings: v.get("bindings")?.as_array()?.iter().map(|a| Some((a.get(0)?.as_str()?.to_string(), ItemSpec::from_json(a.get(1)?)?))).collect::<Option<BTreeMap<_, _>>>()?,
            quote_name: v.get("quote_name")?.as_bool()?,
            send_name: v.get("send_name")?.as_bool()?,
            config: ConfigSpec {
                max_random_float: fparse(c.get("max_random_float")?)?,
                min_random_float: fparse(c.get("min_random_float")?)?,
                max_random_integer: c.get("max_random_integer")?.as_i64()? as i32,
                min_random_integer: c.get("min_random_integer")?.as_i64()? as i32,
                eval_push_limit: c.get("eval_push_limit")?.as_i64()? as i32,
                eval_time_limit: c.get("eval_time_limit")?.as_u64()?,
                growth_cap: c.get("growth_cap")?.as_u64()? as usize,
                new_erc_name_probability: fparse(c.get("new_erc_name_probability")?)?,
                max_points_in_random_expressions: c.get("max_points_in_random_expressions")?.as_i64()? as i32,
                max_points_in_program: c.get("max_points_in_program")?.as_i64()? as i32,
            },
        })
    }
    /// Short human-readable rendering for evidence samples.
    pub fn brief(&self) -> String {
        let mut parts = vec![];
        for c in STACKS.iter().take(15) {
            let nonempty = match *c {
                "BINDINGS" => !self.bindings.is_empty(),
                "QUOTE" => self.quote_name,
                "SEND" => self.send_name,
                x => self.depth_of(x) > 0,
            };
            if nonempty {
                parts.push(format!("{}={}", c, self.component_text(c)));
            }
        }
        parts.join(" ")
    }
    pub fn digest(&self) -> u64 {
        let mut h = Fnv::new();
        for b in &self.bools {
            h.u8(*b as u8)
        }
        h.u8(0xfe);
        for b in &self.ints {
            h.u64(*b as u32 as u64)
        }
        h.u8(0xfe);
        for b in &self.floats {
            h.u64(fbits(*b) as u64)
        }
        h.u8(0xfe);
        for b in &self.names {
            h.str(b)
        }
        h.u8(0xfe);
        for b in &self.code {
            b.hash_into(&mut h)
        }
        h.u8(0xfe);
        for b in &self.exec {
            b.hash_into(&mut h)
        }
        h.u8(0xfe);
        for b in &self.bvecs {
            I::BVec(b.clone()).hash_into(&mut h)
        }
        for b in &self.ivecs {
            I::IVec(b.clone()).hash_into(&mut h)
        }
        for b in &self.fvecs {
            I::FVec(b.clone()).hash_into(&mut h)
        }
        h.u8(0xfe);
        for (c, d) in &self.index {
            h.u64(*c as u64);
            h.u64(*d as u64)
        }
        h.u8(0xfe);
        for m in self.input.iter().chain(self.output.iter()) {
            I::IVec(m.header.clone()).hash_into(&mut h);
            I::BVec(m.body.clone()).hash_into(&mut h);
        }
        h.u8(0xfe);
        for g in &self.graphs {
            I::Graph(g.clone()).hash_into(&mut h)
        }
        h.u8(0xfe);
        for (k, v) in &self.bindings {
            h.str(k);
            v.hash_into(&mut h)
        }
        h.u8(self.quote_name as u8);
        h.u8(self.send_name as u8);
        h.u64(self.config.eval_push_limit as u32 as u64);
        h.u64(self.config.growth_cap as u64);
        h.0
    }
}

/// FNV-1a, used for case digests (distinct_nontrivial) and differential legs.
#[derive(Clone)]
pub struct Fnv(pub u64);
impl Fnv {
    pub fn new() -> Fnv {
        Fnv(0xcbf29ce484222325)
    }
    pub fn u8(&mut self, b: u8) {
        self.0 ^= b as u64;
        self.0 = self.0.wrapping_mul(0x100000001b3);
    }
    pub fn u64(&mut self, v: u64) {
        for b in v.to_le_bytes() {
            self.u8(b)
        }
    }
    pub fn str(&mut self, s: &str) {
        for b in s.as_bytes() {
            self.u8(*b)
        }
        self.u8(0xff);
    }
}
pub fn hash_str(s: &str) -> u64 {
    let mut h = Fnv::new();
    h.str(s);
    h.0
}
