//! Crash supervision. Aborts (allocation failure, stack overflow) and hangs cannot be caught
//! in-process, so `pv` runs the real work in a child process (itself, PV_CHILD=1):
//!  * every thread of the child overwrites a small journal file with the case it is about to
//!    execute (instruction + state, or program + state) and clears it when it is done;
//!  * the parent waits; if the child is killed by a signal, or a journal stays unchanged for
//!    longer than the stuck limit (hang), the parent kills the child, replays every journalled
//!    case once more in a fresh child (confirmation) and reports the ones that crash or hang
//!    again as violations (replay file = the journalled case).
//! The child runs with RLIMIT_AS so that a runaway allocation aborts instead of taking the host
//! down.

use crate::exec::say;
use crate::spec::StateSpec;
use serde_json::{json, Value};
use std::cell::RefCell;
use std::io::Write;
use std::os::unix::fs::FileExt;
use std::os::unix::process::ExitStatusExt;
use std::time::{Duration, Instant};

pub const AS_LIMIT_BYTES: u64 = 8 << 30;
pub const AS_LIMIT_CONFIRM: u64 = 3 << 30;

pub fn is_child() -> bool {
    std::env::var("PV_CHILD").map(|v| v == "1").unwrap_or(false)
}
pub fn work_dir() -> String {
    let d = format!("{}/work", crate::verif_root());
    let _ = std::fs::create_dir_all(&d);
    d
}
fn journal_dir() -> Option<String> {
    std::env::var("PV_JOURNAL_DIR").ok()
}

pub fn set_rlimit_as(bytes: u64) {
    unsafe {
        let lim = libc::rlimit { rlim_cur: bytes, rlim_max: bytes };
        libc::setrlimit(libc::RLIMIT_AS, &lim);
        // no core dumps
        let z = libc::rlimit { rlim_cur: 0, rlim_max: 0 };
        libc::setrlimit(libc::RLIMIT_CORE, &z);
    }
}

// ---------------------------------------------------------------------------------------------
// journal (child side)

thread_local! {
    static JOURNAL: RefCell<Option<std::fs::File>> = RefCell::new(None);
}
static JOURNAL_SEQ: std::sync::atomic::AtomicU64 = std::sync::atomic::AtomicU64::new(0);

fn with_journal(f: impl FnOnce(&std::fs::File)) {
    let dir = match journal_dir() {
        Some(d) => d,
        None => return,
    };
    JOURNAL.with(|j| {
        let mut j = j.borrow_mut();
        if j.is_none() {
            let n = JOURNAL_SEQ.fetch_add(1, std::sync::atomic::Ordering::SeqCst);
            let path = format!("{}/j{}.json", dir, n);
            *j = std::fs::OpenOptions::new().create(true).write(true).read(true).open(path).ok();
        }
        if let Some(file) = j.as_ref() {
            f(file);
        }
    });
}

/// Record the case this thread is about to execute.
pub fn journal_instr(prop: &str, name: &str, state: &StateSpec) {
    if journal_dir().is_none() {
        return;
    }
    let v = json!({"kind": "instr", "property": prop, "instruction": name, "state": state.to_json()});
    write_journal(&v);
}
pub fn journal_program(prop: &str, state: &StateSpec, max_steps: usize, mode: &str) {
    if journal_dir().is_none() {
        return;
    }
    let v = json!({"kind": "program", "property": prop, "mode": mode, "max_steps": max_steps, "state": state.to_json()});
    write_journal(&v);
}
pub fn journal_value(v: &Value) {
    if journal_dir().is_none() {
        return;
    }
    write_journal(v);
}
fn write_journal(v: &Value) {
    let body = serde_json::to_string(v).unwrap_or_default();
    let text = format!("{:012}\n{}", body.len(), body);
    with_journal(|f| {
        let _ = f.write_all_at(text.as_bytes(), 0);
    });
}
/// This thread is not executing any case any more.
pub fn journal_clear() {
    if journal_dir().is_none() {
        return;
    }
    with_journal(|f| {
        let _ = f.write_all_at(format!("{:012}\n", 0).as_bytes(), 0);
    });
}

fn read_journal(path: &std::path::Path) -> Option<Value> {
    let txt = std::fs::read(path).ok()?;
    if txt.len() < 13 {
        return None;
    }
    let len: usize = std::str::from_utf8(&txt[..12]).ok()?.trim().parse().ok()?;
    if len == 0 || txt.len() < 13 + len {
        return None;
    }
    serde_json::from_slice(&txt[13..13 + len]).ok()
}

// ---------------------------------------------------------------------------------------------
// crash-only execution of a journalled case (no oracle: does it return?)

pub fn exec_journalled(v: &Value) -> Result<(), String> {
    let kind = v.get("kind").and_then(|x| x.as_str()).unwrap_or("");
    if kind != "instr" && kind != "program" {
        return crate::props::exec_custom_journal(v);
    }
    let state = v.get("state").and_then(StateSpec::from_json).ok_or("bad state")?;
    match kind {
        "instr" => {
            let name = v.get("instruction").and_then(|x| x.as_str()).ok_or("bad instruction")?;
            match crate::exec::step_named_on(&state, name) {
                Ok(_) => Ok(()),
                Err((loc, msg)) => Err(format!("panic at {}: {}", loc, msg)),
            }
        }
        "program" => {
            let max = v.get("max_steps").and_then(|x| x.as_u64()).unwrap_or(400) as usize;
            let mode = v.get("mode").and_then(|x| x.as_str()).unwrap_or("step");
            crate::exec::exec_program_for_replay(&state, max, mode)
        }
        _ => crate::props::exec_custom_journal(v),
    }
}

// ---------------------------------------------------------------------------------------------
// parent side

pub struct ChildOutcome {
    pub code: Option<i32>,
    pub signal: Option<i32>,
    pub stuck: bool,
    pub timed_out: bool,
}

fn run_child(args: &[String], journal: Option<&str>, stuck_secs: u64, overall_secs: u64) -> ChildOutcome {
    let exe = std::env::current_exe().expect("current_exe");
    let mut cmd = std::process::Command::new(exe);
    cmd.args(args).env("PV_CHILD", "1").env("RUST_BACKTRACE", "0").stderr(std::process::Stdio::null());
    if let Some(j) = journal {
        cmd.env("PV_JOURNAL_DIR", j);
    } else {
        cmd.env_remove("PV_JOURNAL_DIR");
    }
    let mut child = cmd.spawn().expect("spawn child");
    let start = Instant::now();
    loop {
        match child.try_wait() {
            Ok(Some(st)) => {
                return ChildOutcome { code: st.code(), signal: st.signal(), stuck: false, timed_out: false };
            }
            Ok(None) => {}
            Err(_) => return ChildOutcome { code: Some(2), signal: None, stuck: false, timed_out: false },
        }
        std::thread::sleep(Duration::from_millis(200));
        if start.elapsed().as_secs() > overall_secs {
            let _ = child.kill();
            let _ = child.wait();
            return ChildOutcome { code: None, signal: None, stuck: false, timed_out: true };
        }
        if let Some(j) = journal {
            // stuck = some non-empty journal not modified for stuck_secs
            if let Ok(rd) = std::fs::read_dir(j) {
                for e in rd.flatten() {
                    if let Ok(md) = e.metadata() {
                        if md.len() > 13 {
                            if let Ok(m) = md.modified() {
                                if m.elapsed().map(|d| d.as_secs() > stuck_secs).unwrap_or(false) && read_journal(&e.path()).is_some() {
                                    let _ = child.kill();
                                    let _ = child.wait();
                                    return ChildOutcome { code: None, signal: None, stuck: true, timed_out: false };
                                }
                            }
                        }
                    }
                }
            }
        }
    }
}

/// Entry of the supervising parent. Returns the exit code for the whole run.
pub fn supervise(args: &[String], prop: &str) -> i32 {
    let jdir = format!("{}/journal-{}-{}", work_dir(), prop, std::process::id());
    let _ = std::fs::remove_dir_all(&jdir);
    let _ = std::fs::create_dir_all(&jdir);
    let thorough = args.iter().any(|a| a == "thorough") || std::env::var("VERIF_TIER").map(|t| t == "thorough").unwrap_or(false);
    let stuck = std::env::var("PV_STUCK_SECS").ok().and_then(|s| s.parse().ok()).unwrap_or(if thorough { 180 } else { 90 });
    let overall = std::env::var("PV_OVERALL_SECS").ok().and_then(|s| s.parse().ok()).unwrap_or(if thorough { 4 * 3600 } else { 1800 });
    let out = run_child(args, Some(&jdir), stuck, overall);
    let code = if let Some(c) = out.code {
        c
    } else if out.timed_out {
        say(&format!("INCONCLUSIVE: {} exceeded the overall watchdog of {} s", prop, overall));
        2
    } else {
        // crashed or stuck: confirm each journalled case in a fresh child
        let what = if out.stuck { "hung (no progress on one case)".to_string() } else { format!("was killed by signal {}", out.signal.unwrap_or(0)) };
        say(&format!("note: worker process {}; replaying journalled cases for confirmation", what));
        let mut confirmed = 0;
        let mut files: Vec<std::path::PathBuf> = std::fs::read_dir(&jdir).map(|rd| rd.flatten().map(|e| e.path()).collect()).unwrap_or_default();
        files.sort();
        let mut seen_labels: Vec<String> = vec![];
        for f in files {
            if let Some(v) = read_journal(&f) {
                let label0 = format!("{}|{}", v.get("kind").and_then(|x| x.as_str()).unwrap_or(""), v.get("instruction").and_then(|x| x.as_str()).unwrap_or(""));
                if v.get("instruction").is_some() && seen_labels.contains(&label0) {
                    continue;
                }
                let tmp = format!("{}/confirm-{}.json", jdir, confirmed);
                let _ = std::fs::write(&tmp, serde_json::to_string(&v).unwrap());
                let o = run_child(&[prop.to_string(), "--exec-journal".to_string(), tmp.clone()], None, 30, 60);
                let bad = o.signal.is_some() || o.timed_out || o.stuck; // ordinary panics (code 3) are left to the in-process checks
                say(&format!("note: journalled case {} -> code {:?} signal {:?} timed_out {}", label0, o.code, o.signal, o.timed_out));
                if bad {
                    confirmed += 1;
                    seen_labels.push(label0.clone());
                    let label = v.get("instruction").and_then(|x| x.as_str()).map(|s| s.to_string()).unwrap_or_else(|| v.get("kind").and_then(|x| x.as_str()).unwrap_or("case").to_string());
                    let how = if o.timed_out { "hang".to_string() } else if o.code == Some(3) { "panic".to_string() } else { format!("abort(signal {})", o.signal.unwrap_or(0)) };
                    let sig = format!("{}/{}/{}", prop, label, how);
                    if seen_labels.contains(&sig) {
                        continue;
                    }
                    seen_labels.push(sig.clone());
                    let dir = format!("{}/replays/{}", crate::verif_root(), prop);
                    let _ = std::fs::create_dir_all(&dir);
                    let body = json!({"property": prop, "subcheck": "crash", "signature": sig, "detail": format!("executing the journalled case in a fresh process ends in {}", how), "case": v});
                    let text = serde_json::to_string_pretty(&body).unwrap();
                    let sig_file: String = sig.chars().map(|c| if c.is_ascii_alphanumeric() || c == '.' || c == '-' { c } else { '_' }).collect();
                    let path = format!("{}/{}-{:08x}.json", dir, sig_file, crate::spec::hash_str(&text) as u32);
                    if let Ok(mut fh) = std::fs::File::create(&path) {
                        let _ = fh.write_all(text.as_bytes());
                    }
                    let known: Vec<String> = crate::load_known(prop).into_iter().map(|k| k.key).collect();
                    if known.contains(&sig) {
                        say(&format!("KNOWN-FINDING: property={} key={} (crash reproduced while searching; the search was cut short)", prop, sig));
                    } else {
                        say(&format!("violation: [crash] {} :: worker {}; case reproduces in a fresh process", sig, what));
                        say(&format!("VIOLATION property={} replay={}", prop, path));
                    }
                }
            }
        }
        if confirmed > 0 {
            1
        } else {
            say(&format!("INCONCLUSIVE: worker process {} but no journalled case reproduces", what));
            2
        }
    };
    if std::env::var("PV_KEEP_JOURNAL").is_err() {
        let _ = std::fs::remove_dir_all(&jdir);
    }
    code
}

/// `pv <prop> --replay FILE` for a crash-type replay file: run in a child, report.
pub fn replay_crash(prop: &str, file: &str, case: &Value) -> i32 {
    let tmp = format!("{}/replay-{}.json", work_dir(), std::process::id());
    let _ = std::fs::write(&tmp, serde_json::to_string(case).unwrap());
    let o = run_child(&[prop.to_string(), "--exec-journal".to_string(), tmp.clone()], None, 30, 60);
    let _ = std::fs::remove_file(&tmp);
    if o.signal.is_some() || o.timed_out || o.code == Some(3) {
        say(&format!("replay: case still ends abnormally (signal {:?}, timed out {}, code {:?})", o.signal, o.timed_out, o.code));
        say(&format!("VIOLATION property={} replay={}", prop, file));
        1
    } else {
        say(&format!("replay: property={} the journalled case now completes normally", prop));
        0
    }
}

/// run `pv <args>` as a child without journal; used by probes that expect a possible abort
pub fn run_child_public(args: &[String], overall_secs: u64) -> ChildOutcome {
    run_child(args, None, overall_secs, overall_secs)
}
