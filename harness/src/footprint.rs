//! Documented operand/result footprint of every instruction (design/footprint.tsv).
