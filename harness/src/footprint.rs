//! Documented operand/result footprint of every instruction (design/footprint.tsv), compiled
//! from the `///` comments. Used by C01 (non-triviality, envelope), C10 (frame / no
//! fabrication), C15 (size operands) and by the value checks to decide "operands present".

use crate::spec::StateSpec;
use std::collections::BTreeMap;

pub const TABLE: &str = include_str!("../../design/footprint.tsv");

#[derive(Clone, Debug)]
pub struct Footprint {
    pub name: String,
    /// (component, minimal depth)
    pub need: Vec<(&'static str, usize)>,
    pub shrink: Vec<&'static str>,
    pub write: Vec<&'static str>,
    pub side: Vec<String>,
    /// INTEGER position (0 = top) of a size-like operand
    pub size_at: Option<usize>,
    pub owner: String,
    pub note: String,
}

pub fn comp(abbrev: &str) -> &'static str {
    match abbrev {
        "BOOL" => "BOOLEAN",
        "INT" => "INTEGER",
        "FLOAT" => "FLOAT",
        "NAME" => "NAME",
        "CODE" => "CODE",
        "EXEC" => "EXEC",
        "BVEC" => "BOOLVECTOR",
        "IVEC" => "INTVECTOR",
        "FVEC" => "FLOATVECTOR",
        "INDEX" => "INDEX",
        "IN" => "INPUT",
        "OUT" => "OUTPUT",
        "GRAPH" => "GRAPH",
        x => panic!("unknown stack abbreviation {}", x),
    }
}

pub fn table() -> BTreeMap<String, Footprint> {
    let mut m = BTreeMap::new();
    for line in TABLE.lines() {
        if line.starts_with('#') || line.starts_with("name\t") || line.trim().is_empty() {
            continue;
        }
        let f: Vec<&str> = line.split('\t').collect();
        if f.len() < 8 {
            continue;
        }
        let list = |s: &str| -> Vec<&'static str> {
            if s == "-" {
                vec![]
            } else {
                s.split(',').map(|x| comp(x.trim())).collect()
            }
        };
        let need = if f[1] == "-" {
            vec![]
        } else {
            f[1].split(',')
                .map(|x| {
                    let (a, b) = x.trim().split_once(':').unwrap();
                    (comp(a), b.parse::<usize>().unwrap())
                })
                .collect()
        };
        let size_at = f[5].strip_prefix("INT@").and_then(|x| x.parse().ok());
        m.insert(
            f[0].to_string(),
            Footprint {
                name: f[0].to_string(),
                need,
                shrink: list(f[2]),
                write: list(f[3]),
                side: if f[4] == "-" { vec![] } else { f[4].split(',').map(|x| x.to_string()).collect() },
                size_at,
                owner: f[6].to_string(),
                note: f[7].to_string(),
            },
        );
    }
    m
}

thread_local! {
    static CACHE: BTreeMap<String, Footprint> = table();
}
pub fn get(name: &str) -> Option<Footprint> {
    CACHE.with(|c| c.get(name).cloned())
}

impl Footprint {
    /// Are the documented minimal operand depths present?
    pub fn needs_met(&self, s: &StateSpec) -> bool {
        self.need.iter().all(|(c, n)| s.depth_of(c) >= *n)
    }
}
