//! Resource envelope of C01 (DESIGN.md section 3): (a) positive size-like INTEGER operands above
//! 4096 are clamped to 4096 before the step that consumes them, (b) a case is abandoned as soon
//! as a CODE/EXEC item exceeds 20 000 points or the state exceeds 200 000 scalar cells.

use crate::footprint;
use crate::spec::{ItemSpec, StateSpec};
use pushr::push::item::Item;
use pushr::push::state::PushState;

pub const MAX_SIZE_OPERAND: i32 = 4096;
pub const MAX_POINTS: usize = 20_000;
pub const MAX_CELLS: usize = 200_000;

/// (a) on the real state: look at the next EXEC item; if it is an instruction with a size-like
/// INTEGER operand, clamp that operand.
pub fn clamp_sizes(st: &mut PushState) -> bool {
    let name = match st.exec_stack.get(0) {
        Some(Item::InstructionMeta { name }) => name.clone(),
        _ => return false,
    };
    if let Some(fp) = footprint::get(&name) {
        if let Some(pos) = fp.size_at {
            if let Some(v) = st.int_stack.get_mut(pos) {
                if *v > MAX_SIZE_OPERAND {
                    *v = MAX_SIZE_OPERAND;
                    return true;
                }
            }
        }
    }
    false
}
/// (a) on a spec, for single-instruction cases
pub fn clamp_sizes_spec(s: &mut StateSpec, name: &str) -> bool {
    if let Some(fp) = footprint::get(name) {
        if let Some(pos) = fp.size_at {
            if let Some(v) = s.ints.get_mut(pos) {
                if *v > MAX_SIZE_OPERAND {
                    *v = MAX_SIZE_OPERAND;
                    return true;
                }
            }
        }
    }
    false
}

fn item_cells(it: &Item, points: &mut usize, max_item: &mut usize) -> usize {
    let p = Item::size(it);
    *points += p;
    if p > *max_item {
        *max_item = p;
    }
    // vectors inside items are rare and small compared to the bounds; points dominate
    p
}

/// (b) is the real state outside the envelope?
pub fn outside(st: &PushState) -> bool {
    let mut points = 0usize;
    let mut max_item = 0usize;
    let mut cells = 0usize;
    for i in 0..st.code_stack.size() {
        cells += item_cells(st.code_stack.get(i).unwrap(), &mut points, &mut max_item);
    }
    for i in 0..st.exec_stack.size() {
        cells += item_cells(st.exec_stack.get(i).unwrap(), &mut points, &mut max_item);
    }
    if max_item > MAX_POINTS {
        return true;
    }
    cells += st.bool_stack.size() + st.int_stack.size() + st.float_stack.size() + st.index_stack.size();
    for i in 0..st.name_stack.size() {
        cells += 1 + st.name_stack.get(i).unwrap().len() / 8;
    }
    for i in 0..st.bool_vector_stack.size() {
        cells += 1 + st.bool_vector_stack.get(i).unwrap().values.len();
    }
    for i in 0..st.int_vector_stack.size() {
        cells += 1 + st.int_vector_stack.get(i).unwrap().values.len();
    }
    for i in 0..st.float_vector_stack.size() {
        cells += 1 + st.float_vector_stack.get(i).unwrap().values.len();
    }
    for (_, v) in st.name_bindings.iter() {
        cells += Item::size(v);
    }
    cells > MAX_CELLS
}

pub fn spec_outside(s: &StateSpec) -> bool {
    s.code.iter().chain(s.exec.iter()).any(|x: &ItemSpec| x.points() > MAX_POINTS) || s.cells() > MAX_CELLS
}
