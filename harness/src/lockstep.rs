//! Lock-step differential execution: the real interpreter against the reference interpreter
//! (refmodel::ref_step), compared after every step. After a matching step the reference
//! continues from the observed state, so alternatives/wildcards never accumulate.

use crate::engine::*;
use crate::exec::with_machine;
use crate::refmodel::Expect;
use crate::refmodel2::ref_step;
use crate::spec::*;

#[derive(Default, Debug, Clone)]
pub struct LockResult {
    pub steps: usize,
    /// registered instructions executed and compared
    pub compared_instr: usize,
    pub unspecified: usize,
    pub not_modelled: usize,
    pub finished: bool,
    pub cut_by_envelope: bool,
    pub instrs: Vec<String>,
}

pub fn item_label(it: &ItemSpec) -> String {
    match it {
        ItemSpec::Instr(n) => n.clone(),
        ItemSpec::List(_) => "<list>".into(),
        ItemSpec::Name(_) => "<name>".into(),
        _ => "<literal>".into(),
    }
}

/// Execute `init` (program on its EXEC stack) for at most `max_steps` steps.
/// `skip(name, state before)`: steps whose value is not compared (RAND, unspecified corners).
pub fn lockstep(
    prop: &str,
    init: &StateSpec,
    max_steps: usize,
    registered: &std::collections::BTreeSet<String>,
    skip: &dyn Fn(&str, &StateSpec) -> bool,
) -> Result<LockResult, Fail> {
    lockstep_opts(prop, init, max_steps, registered, skip, false)
}

/// `clamp`: apply the resource envelope's size-operand clamp (on the real state and on the
/// reference's state alike) before every step - needed for programs over the whole registry.
pub fn lockstep_opts(
    prop: &str,
    init: &StateSpec,
    max_steps: usize,
    registered: &std::collections::BTreeSet<String>,
    skip: &dyn Fn(&str, &StateSpec) -> bool,
    clamp: bool,
) -> Result<LockResult, Fail> {
    crate::supervise::journal_program(prop, init, max_steps, "step");
    let (mut real, _) = init.build();
    // start from the snapshot of the built state (graph node ids are the real ones there)
    let mut cur = StateSpec::snapshot(&real);
    let mut res = LockResult::default();
    let is_reg = |n: &str| registered.contains(n);
    for _ in 0..max_steps {
        if clamp {
            if let Some(ItemSpec::Instr(n)) = cur.exec.first().cloned() {
                crate::envelope::clamp_sizes(&mut real);
                crate::envelope::clamp_sizes_spec(&mut cur, &n);
            }
        }
        let label = cur.exec.first().map(item_label).unwrap_or_else(|| "<empty>".into());
        let (fin_ref, expect) = ref_step(&cur, &is_reg);
        let r = guarded(|| with_machine(|m| m.step(&mut real)));
        let fin = match r {
            Ok(f) => f,
            Err((loc, msg)) => {
                return Err(Fail::new(
                    format!("{}/{}/panic@{}", prop, label, loc),
                    format!("step on {} panicked at {}: {} | state before: {}", label, loc, msg, cur.brief()),
                ))
            }
        };
        if crate::envelope::outside(&real) {
            // outside the resource envelope: the case is cut here (C15's subject)
            res.cut_by_envelope = true;
            break;
        }
        let snap = StateSpec::snapshot(&real);
        if fin != fin_ref {
            return Err(Fail::new(
                format!("{}/step-return", prop),
                format!("step returned {} but the reference says {} (EXEC depth before: {})", fin, fin_ref, cur.exec.len()),
            ));
        }
        if fin {
            if snap != cur {
                return Err(Fail::new(
                    format!("{}/step-on-empty-exec-changed-state", prop),
                    format!("{}", cur.diff(&snap).unwrap_or_default()),
                ));
            }
            res.finished = true;
            break;
        }
        res.steps += 1;
        let is_instr = matches!(cur.exec.first(), Some(ItemSpec::Instr(_)));
        // An instruction whose documented operands are not all present may have consumed any of
        // the operands it had already taken (C10): which ones is not specified, so such a step
        // is not value-compared here (C10's frame rules apply to it in C10's own check).
        let short = is_instr
            && crate::footprint::get(&label)
                .map(|fp| {
                    let mut b = cur.clone();
                    b.exec.remove(0);
                    !fp.needs_met(&b)
                })
                .unwrap_or(false);
        if is_instr && (short || skip(&label, &cur)) {
            res.unspecified += 1;
        } else {
            match expect.judge(&snap) {
                None => {
                    if matches!(expect, Expect::NotModelled) {
                        res.not_modelled += 1;
                    } else {
                        res.unspecified += 1;
                    }
                }
                Some(Ok(())) => {
                    if is_instr {
                        res.compared_instr += 1;
                        if res.instrs.len() < 64 {
                            res.instrs.push(label.clone());
                        }
                    }
                }
                Some(Err((comp, text))) => {
                    return Err(Fail::new(
                        format!("{}/{}/{}", prop, label, comp),
                        format!("after {}: {} | state before: {}", label, text, cur.brief()),
                    ));
                }
            }
        }
        cur = snap;
    }
    Ok(res)
}

/// which property answers for a mismatch at `label`
pub fn owner_of(label: &str) -> String {
    match label {
        "<list>" | "<literal>" | "<empty>" => "C06".to_string(),
        "<name>" => "C07".to_string(),
        n => crate::footprint::get(n).map(|f| f.owner.clone()).unwrap_or_default(),
    }
}


/// Steps whose value is not compared when whole programs run over the full registry:
// K2 (known finding of C04): the value of the two inverted conversions is not compared here
// C08's instructions: `=` / DISCREPANCY compare printed forms by (pinned) design, which is
// not injective on floats and vectors; whether NaN matches NaN structurally is unspecified
pub fn context_skip(n: &str, before: &StateSpec) -> bool {
    if n == "BOOLEAN.FROMFLOAT" || n == "BOOLEAN.FROMINTEGER" {
        return true;
    }
    if owner_of(n) == "C08" {
        // the instruction itself is still on EXEC in `before`
        let tops: Vec<&ItemSpec> = before.code.iter().take(3).chain(before.exec.iter().take(4)).collect();
        let has = |f: &dyn Fn(&ItemSpec) -> bool| tops.iter().any(|t| t.preorder().iter().any(|x| f(x)));
        let printed = matches!(n, "CODE.=" | "EXEC.=" | "CODE.DISCREPANCY");
        if printed {
            // compared only when printing is injective on the sub-items involved: no two
            // structurally different sub-items with the same printed form (vectors lose
            // their type, floats their digits, names may spell a literal or be empty)
            let subs: Vec<&ItemSpec> = tops.iter().flat_map(|t| t.preorder()).collect();
            if subs.len() > 80 {
                return true;
            }
            let texts: Vec<String> = subs.iter().map(|x| crate::refmodel::print_item(x)).collect();
            for i in 0..subs.len() {
                if texts[i].trim().is_empty() || matches!(subs[i], ItemSpec::Name(s) if s.chars().any(|c| c.is_whitespace() || c == '(' || c == ')')) {
                    return true;
                }
                for j in (i + 1)..subs.len() {
                    // either direction: alike in print but different items (BOOL[] / INT[]), or
                    // the same item for the reference but different in print (0.0 / -0.0)
                    if (texts[i] == texts[j]) != (subs[i] == subs[j]) {
                        return true;
                    }
                }
            }
            return false;
        }
        return has(&|x| match x {
            ItemSpec::Float(v) => v.is_nan(),
            ItemSpec::FVec(v) => v.iter().any(|e| e.is_nan()),
            _ => false,
        });
    }
    false
}
