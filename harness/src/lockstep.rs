//! Lock-step differential execution: the real interpreter against the reference interpreter
//! (refmodel::ref_step), compared after every step. After a matching step the reference
//! continues from the observed state, so alternatives/wildcards never accumulate.

use crate::engine::*;
use crate::exec::with_machine;
use crate::refmodel::Expect;
use crate::refmodel2::ref_step;
use crate::spec::*;

#[derive(Default, Debug, Clone)]
pub struct LockResult {
    pub steps: usize,
    /// registered instructions executed and compared
    pub compared_instr: usize,
    pub unspecified: usize,
    pub not_modelled: usize,
    pub finished: bool,
    pub cut_by_envelope: bool,
    pub instrs: Vec<String>,
}

pub fn item_label(it: &ItemSpec) -> String {
    match it {
        ItemSpec::Instr(n) => n.clone(),
        ItemSpec::List(_) => "<list>".into(),
        ItemSpec::Name(_) => "<name>".into(),
        _ => "<literal>".into(),
    }
}

/// Execute `init` (program on its EXEC stack) for at most `max_steps` steps.
/// `skip(name, state before)`: steps whose value is not compared (RAND, unspecified corners).
pub fn lockstep(
    prop: &str,
    init: &StateSpec,
    max_steps: usize,
    registered: &std::collections::BTreeSet<String>,
    skip: &dyn Fn(&str, &StateSpec) -> bool,
) -> Result<LockResult, Fail> {
    lockstep_opts(prop, init, max_steps, registered, skip, false)
}

/// `clamp`: apply the resource envelope's size-operand clamp (on the real state and on the
/// reference's state alike) before every step - needed for programs over the whole registry.
pub fn lockstep_opts(
    prop: &str,
    init: &StateSpec,
    max_steps: usize,
    registered: &std::collections::BTreeSet<String>,
    skip: &dyn Fn(&str, &StateSpec) -> bool,
    clamp: bool,
) -> Result<LockResult, Fail> {
    crate::supervise::journal_program(prop, init, max_steps, "step");
    let (mut real, _) = init.build();
    // start from the snapshot of the built state (graph node ids are the real ones there)
    let mut cur = StateSpec::snapshot(&real);
    let mut res = LockResult::default();
    let is_reg = |n: &str| registered.contains(n);
    for _ in 0..max_steps {
        if clamp {
            if let Some(ItemSpec::Instr(n)) = cur.exec.first().cloned() {
                crate::envelope::clamp_sizes(&mut real);
                crate::envelope::clamp_sizes_spec(&mut cur, &n);
            }
        }
        let label = cur.exec.first().map(item_label).unwrap_or_else(|| "<empty>".into());
        let (fin_ref, expect) = ref_step(&cur, &is_reg);
        let r = guarded(|| with_machine(|m| m.step(&mut real)));
        let fin = match r {
            Ok(f) => f,
            Err((loc, msg)) => {
                return Err(Fail::new(
                    format!("{}/{}/panic@{}", prop, label, loc),
                    format!("step on {} panicked at {}: {} | state before: {}", label, loc, msg, cur.brief()),
                ))
            }
        };
        if crate::envelope::outside(&real) {
            // outside the resource envelope: the case is cut here (C15's subject)
            res.cut_by_envelope = true;
            break;
        }
        let snap = StateSpec::snapshot(&real);
        if fin != fin_ref {
            return Err(Fail::new(
                format!("{}/step-return", prop),
                format!("step returned {} but the reference says {} (EXEC depth before: {})", fin, fin_ref, cur.exec.len()),
            ));
        }
        if fin {
            if snap != cur {
                return Err(Fail::new(
                    format!("{}/step-on-empty-exec-changed-state", prop),
                    format!("{}", cur.diff(&snap).unwrap_or_default()),
                ));
            }
            res.finished = true;
            break;
        }
        res.steps += 1;
        let is_instr = matches!(cur.exec.first(), Some(ItemSpec::Instr(_)));
        if is_instr && skip(&label, &cur) {
            res.unspecified += 1;
        } else {
            match expect.judge(&snap) {
                None => {
                    if matches!(expect, Expect::NotModelled) {
                        res.not_modelled += 1;
                    } else {
                        res.unspecified += 1;
                    }
                }
                Some(Ok(())) => {
                    if is_instr {
                        res.compared_instr += 1;
                        if res.instrs.len() < 64 {
                            res.instrs.push(label.clone());
                        }
                    }
                }
                Some(Err((comp, text))) => {
                    return Err(Fail::new(
                        format!("{}/{}/{}", prop, label, comp),
                        format!("after {}: {} | state before: {}", label, text, cur.brief()),
                    ));
                }
            }
        }
        cur = snap;
    }
    Ok(res)
}
