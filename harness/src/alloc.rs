//! Counting global allocator (C15): bytes requested by the current thread. Deterministic
//! measure of "memory used by one step" that does not depend on the machine.

use std::alloc::{GlobalAlloc, Layout, System};
use std::cell::Cell;

pub struct Counting;

thread_local! {
    static BYTES: Cell<u64> = const { Cell::new(0) };
    static PEAK_REQ: Cell<u64> = const { Cell::new(0) };
}

unsafe impl GlobalAlloc for Counting {
    unsafe fn alloc(&self, layout: Layout) -> *mut u8 {
        let _ = BYTES.try_with(|b| b.set(b.get().wrapping_add(layout.size() as u64)));
        let _ = PEAK_REQ.try_with(|b| {
            if layout.size() as u64 > b.get() {
                b.set(layout.size() as u64)
            }
        });
        System.alloc(layout)
    }
    unsafe fn dealloc(&self, ptr: *mut u8, layout: Layout) {
        System.dealloc(ptr, layout)
    }
    unsafe fn realloc(&self, ptr: *mut u8, layout: Layout, new_size: usize) -> *mut u8 {
        if new_size > layout.size() {
            let _ = BYTES.try_with(|b| b.set(b.get().wrapping_add((new_size - layout.size()) as u64)));
        }
        let _ = PEAK_REQ.try_with(|b| {
            if new_size as u64 > b.get() {
                b.set(new_size as u64)
            }
        });
        System.realloc(ptr, layout, new_size)
    }
}

/// bytes requested by this thread since the thread started
pub fn bytes_now() -> u64 {
    BYTES.try_with(|b| b.get()).unwrap_or(0)
}
/// run `f` and return (result, bytes requested by this thread during the call)
pub fn measure<R>(f: impl FnOnce() -> R) -> (R, u64) {
    let before = bytes_now();
    let r = f();
    (r, bytes_now().wrapping_sub(before))
}
