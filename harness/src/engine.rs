//! Engine: tiers, seeds, proptest driving with sharding, panic capture, reports, evidence.

use proptest::strategy::{Strategy, ValueTree};
use proptest::test_runner::{Config, RngAlgorithm, RngSeed, TestCaseError, TestError, TestRng, TestRunner};
use serde_json::{json, Value};
use std::cell::RefCell;
use std::collections::{BTreeMap, BTreeSet, HashSet};
use std::panic::{catch_unwind, AssertUnwindSafe};
use std::sync::{Arc, Mutex};

use crate::spec::Fnv;

#[derive(Clone, Copy, PartialEq, Debug)]
pub enum Tier {
    Quick,
    Thorough,
}
impl Tier {
    pub fn name(&self) -> &'static str {
        match self {
            Tier::Quick => "quick",
            Tier::Thorough => "thorough",
        }
    }
    pub fn pick<T>(&self, q: T, t: T) -> T {
        match self {
            Tier::Quick => q,
            Tier::Thorough => t,
        }
    }
}

#[derive(Clone)]
pub struct Ctx {
    pub prop: String,
    pub tier: Tier,
    pub seed: u64,
    pub threads: usize,
    /// signatures (keys) of known findings of this property: failures with these signatures
    /// are counted as excluded instead of reported.
    pub known: Arc<BTreeSet<String>>,
}

pub fn derive_seed(seed: u64, parts: &[&str], shard: u64, round: u64) -> u64 {
    let mut h = Fnv::new();
    h.u64(seed);
    for p in parts {
        h.str(p);
    }
    h.u64(shard);
    h.u64(round);
    // avoid 0
    h.0 | 1
}

pub fn rng_for(seed: u64) -> TestRng {
    let mut bytes = [0u8; 32];
    let mut h = Fnv::new();
    for i in 0..4 {
        h.u64(seed.wrapping_add(i));
        bytes[(i as usize) * 8..(i as usize) * 8 + 8].copy_from_slice(&h.0.to_le_bytes());
    }
    TestRng::from_seed(RngAlgorithm::ChaCha, &bytes)
}

// ---------------------------------------------------------------------------------------------
// panic capture

thread_local! {
    static LAST_PANIC: RefCell<Option<(String, String)>> = RefCell::new(None);
}

pub fn install_panic_hook() {
    std::panic::set_hook(Box::new(|info| {
        let loc = info
            .location()
            .map(|l| {
                let f = l.file();
                // make paths independent of where the source tree lives
                let f = match f.find("src/push/") {
                    Some(i) => &f[i..],
                    None => match f.rfind("/src/") {
                        Some(i) => &f[i + 1..],
                        None => f,
                    },
                };
                format!("{}:{}", f, l.line())
            })
            .unwrap_or_else(|| "?".to_string());
        let msg = if let Some(s) = info.payload().downcast_ref::<&str>() {
            s.to_string()
        } else if let Some(s) = info.payload().downcast_ref::<String>() {
            s.clone()
        } else {
            "panic".to_string()
        };
        LAST_PANIC.with(|p| *p.borrow_mut() = Some((loc, msg)));
    }));
}

/// Run `f`, turning a panic into Err((location, message)).
pub fn guarded<R>(f: impl FnOnce() -> R) -> Result<R, (String, String)> {
    LAST_PANIC.with(|p| *p.borrow_mut() = None);
    match catch_unwind(AssertUnwindSafe(f)) {
        Ok(r) => Ok(r),
        Err(_) => Err(LAST_PANIC
            .with(|p| p.borrow_mut().take())
            .unwrap_or(("?".to_string(), "panic".to_string()))),
    }
}

// ---------------------------------------------------------------------------------------------
// results

#[derive(Clone, Debug)]
pub struct Fail {
    /// identifies the root cause class: used for de-duplication and known-finding matching
    pub signature: String,
    pub detail: String,
}
impl Fail {
    pub fn new(signature: impl Into<String>, detail: impl Into<String>) -> Fail {
        Fail { signature: signature.into(), detail: detail.into() }
    }
}

#[derive(Clone, Debug, Default)]
pub struct CaseOut {
    pub nontrivial: bool,
    pub digest: u64,
    pub class: Vec<String>,
}
impl CaseOut {
    pub fn new(nontrivial: bool, digest: u64) -> CaseOut {
        CaseOut { nontrivial, digest, class: vec![] }
    }
    pub fn class(mut self, c: impl Into<String>) -> CaseOut {
        self.class.push(c.into());
        self
    }
}
pub type CaseResult = Result<CaseOut, Fail>;

#[derive(Clone, Debug)]
pub struct Violation {
    pub signature: String,
    pub detail: String,
    pub subcheck: String,
    pub case: Value,
}

#[derive(Default)]
pub struct SubReport {
    pub name: String,
    pub evaluations: u64,
    pub nontrivial: HashSet<u64>,
    /// distinct non-trivial cases counted (not hashed) by exhaustive enumerations, where
    /// distinctness holds by construction
    pub nontrivial_extra: u64,
    pub samples: Vec<Value>,
    pub classes: BTreeMap<String, u64>,
    pub violations: Vec<Violation>,
    pub excluded: BTreeMap<String, u64>,
    pub exhaustive: bool,
    pub notes: Vec<String>,
    pub inconclusive: Vec<String>,
}
impl SubReport {
    pub fn new(name: &str) -> SubReport {
        SubReport { name: name.to_string(), ..Default::default() }
    }
    pub fn record(&mut self, out: &CaseOut) {
        self.evaluations += 1;
        if out.nontrivial {
            self.nontrivial.insert(out.digest);
        }
        for c in &out.class {
            *self.classes.entry(c.clone()).or_insert(0) += 1;
        }
    }
    /// like record() but evaluations are counted by the caller
    pub fn record_only(&mut self, out: &CaseOut) {
        if out.nontrivial {
            self.nontrivial.insert(out.digest);
        }
        for c in &out.class {
            *self.classes.entry(c.clone()).or_insert(0) += 1;
        }
    }
    pub fn sample(&mut self, v: Value) {
        if self.samples.len() < 8 {
            self.samples.push(v);
        }
    }
    pub fn merge(&mut self, o: SubReport) {
        self.evaluations += o.evaluations;
        self.nontrivial.extend(o.nontrivial);
        self.nontrivial_extra += o.nontrivial_extra;
        self.exhaustive |= o.exhaustive;
        for s in o.samples {
            if self.samples.len() < 8 {
                self.samples.push(s);
            }
        }
        for (k, v) in o.classes {
            *self.classes.entry(k).or_insert(0) += v;
        }
        for v in o.violations {
            if !self.violations.iter().any(|x| x.signature == v.signature) {
                self.violations.push(v);
            }
        }
        for (k, v) in o.excluded {
            *self.excluded.entry(k).or_insert(0) += v;
        }
        self.notes.extend(o.notes);
        self.inconclusive.extend(o.inconclusive);
    }
    /// Record a failure found outside proptest (enumerations, probes).
    pub fn fail(&mut self, ctx: &Ctx, f: Fail, case: Value) {
        if ctx.known.contains(&f.signature) {
            *self.excluded.entry(f.signature).or_insert(0) += 1;
            return;
        }
        if !self.violations.iter().any(|x| x.signature == f.signature) {
            self.violations.push(Violation {
                signature: f.signature,
                detail: f.detail,
                subcheck: self.name.clone(),
                case,
            });
        }
    }
}

// ---------------------------------------------------------------------------------------------
// proptest driving

struct Shared {
    ignore: Mutex<BTreeSet<String>>,
}

/// Drive `test` over `cases` generated values, spread over ctx.threads shards.
/// * `mk` builds the strategy (called once per shard).
/// * `test` judges one value. It is re-entered while shrinking.
/// * `render` turns a value into JSON for samples and replay files.
/// After a failure the (shrunk) case is recorded, its signature is added to an ignore set and
/// the search continues with a fresh runner for the remaining budget, so that several distinct
/// root causes are reported by one run (bounded by `max_rounds`).
pub fn run_sharded<T, S>(
    ctx: &Ctx,
    sub: &str,
    cases: u64,
    mk: impl Fn() -> S + Sync,
    test: impl Fn(&T) -> CaseResult + Sync,
    render: impl Fn(&T) -> Value + Sync,
) -> SubReport
where
    T: std::fmt::Debug + Clone,
    S: Strategy<Value = T>,
{
    let shards = ctx.threads.max(1) as u64;
    let per = (cases + shards - 1) / shards;
    let shared = Shared { ignore: Mutex::new(ctx.known.iter().cloned().collect()) };
    let mut total = SubReport::new(sub);
    std::thread::scope(|sc| {
        let mut hs = vec![];
        for shard in 0..shards {
            let (mk, test, render, shared) = (&mk, &test, &render, &shared);
            let ctx = ctx.clone();
            let sub = sub.to_string();
            hs.push(
                std::thread::Builder::new()
                    .stack_size(128 << 20)
                    .spawn_scoped(sc, move || match guarded(|| shard_loop(&ctx, &sub, shard, per, mk, test, render, shared)) {
                        Ok(r) => r,
                        Err((loc, msg)) => {
                            let mut r = SubReport::new(&sub);
                            r.inconclusive.push(format!("{}: harness panic in shard {} at {}: {}", sub, shard, loc, msg));
                            r
                        }
                    })
                    .unwrap(),
            );
        }
        for h in hs {
            match h.join() {
                Ok(r) => total.merge(r),
                Err(_) => total.inconclusive.push(format!("{}: a shard thread died", sub)),
            }
        }
    });
    total
}

fn shard_loop<T, S>(
    ctx: &Ctx,
    sub: &str,
    shard: u64,
    per: u64,
    mk: &(impl Fn() -> S + Sync),
    test: &(impl Fn(&T) -> CaseResult + Sync),
    render: &(impl Fn(&T) -> Value + Sync),
    shared: &Shared,
) -> SubReport
where
    T: std::fmt::Debug + Clone,
    S: Strategy<Value = T>,
{
    let mut rep = SubReport::new(sub);
    let strat = mk();
    let mut remaining = per;
    let max_rounds = 12;
    for round in 0..max_rounds {
        if remaining == 0 {
            break;
        }
        let seed = derive_seed(ctx.seed, &[&ctx.prop, sub], shard, round);
        let mut seed_bytes = [0u8; 32];
        {
            let mut h = Fnv::new();
            for i in 0..4u64 {
                h.u64(seed.wrapping_add(i));
                seed_bytes[(i as usize) * 8..(i as usize) * 8 + 8].copy_from_slice(&h.0.to_le_bytes());
            }
        }
        let cfg = Config {
            cases: remaining.min(u32::MAX as u64) as u32,
            failure_persistence: None,
            rng_algorithm: RngAlgorithm::ChaCha,
            rng_seed: RngSeed::Fixed(seed),
            max_shrink_iters: 200_000,
            max_global_rejects: 1 << 30,
            max_local_rejects: 1 << 20,
            ..Config::default()
        };
        let _ = seed_bytes;
        let mut runner = TestRunner::new(cfg);
        // statistics are collected only until the first failure of this round
        let failed = RefCell::new(false);
        // while shrinking, only failures with the signature of the first failure count, so
        // the minimal case belongs to the same root cause
        let first_sig: RefCell<Option<String>> = RefCell::new(None);
        // shrinking effort is bounded (minimality only, never the verdict): 90 s after the first
        // failure every further candidate counts as passing, so the search settles on its best
        let shrink_started: RefCell<Option<std::time::Instant>> = RefCell::new(None);
        let stats = RefCell::new(SubReport::new(sub));
        let ignore_snapshot: BTreeSet<String> = shared.ignore.lock().unwrap().clone();
        // a shard stops early after 300 further failures whose signature was already reported in
        // this run (not a known finding): on a badly broken tree every remaining case fails again,
        // and a failing case can be far more expensive than a passing one
        let repeats = RefCell::new(0usize);
        let result = runner.run(&strat, |v| {
            if *repeats.borrow() > 300 {
                return Ok(());
            }
            if let Some(t0) = *shrink_started.borrow() {
                if t0.elapsed().as_secs() >= 90 {
                    return Ok(());
                }
            }
            let r = test(&v);
            match r {
                Ok(out) => {
                    if !*failed.borrow() {
                        let mut st = stats.borrow_mut();
                        st.record(&out);
                        if st.samples.len() < 3 && shard == 0 {
                            let j = render(&v);
                            st.sample(j);
                        } else if st.samples.len() < 8 && (out.digest % 997 == 0) {
                            let j = render(&v);
                            st.sample(j);
                        }
                    }
                    Ok(())
                }
                Err(f) => {
                    if ignore_snapshot.contains(&f.signature) {
                        if !ctx.known.contains(&f.signature) {
                            *repeats.borrow_mut() += 1;
                        }
                        if !*failed.borrow() {
                            let mut st = stats.borrow_mut();
                            st.evaluations += 1;
                            *st.excluded.entry(f.signature.clone()).or_insert(0) += 1;
                        }
                        Ok(())
                    } else {
                        let mut fs = first_sig.borrow_mut();
                        match &*fs {
                            None => {
                                *fs = Some(f.signature.clone());
                            }
                            Some(sig) => {
                                if *sig != f.signature {
                                    return Ok(());
                                }
                            }
                        }
                        *failed.borrow_mut() = true;
                        let mut ss = shrink_started.borrow_mut();
                        if ss.is_none() {
                            *ss = Some(std::time::Instant::now());
                        }
                        Err(TestCaseError::fail(f.signature))
                    }
                }
            }
        });
        let mut st = stats.into_inner();
        let done = st.evaluations;
        if *repeats.borrow() > 300 {
            st.notes.push(format!("{} shard {} stopped early after 300 further failures with signatures already reported in this run", sub, shard));
        }
        rep.merge(st);
        match result {
            Ok(()) => break,
            Err(TestError::Fail(_reason, minimal)) => {
                // re-judge the minimal case to obtain signature and detail
                let f = match test(&minimal) {
                    Err(f) => f,
                    Ok(_) => Fail::new("flaky-shrink", "minimal case passed when re-judged"),
                };
                let mut ig = shared.ignore.lock().unwrap();
                if !ig.contains(&f.signature) {
                    ig.insert(f.signature.clone());
                    rep.violations.push(Violation {
                        signature: f.signature,
                        detail: f.detail,
                        subcheck: sub.to_string(),
                        case: render(&minimal),
                    });
                }
                drop(ig);
                remaining = remaining.saturating_sub(done + 1);
                crate::supervise::journal_clear();
            }
            Err(TestError::Abort(why)) => {
                rep.inconclusive.push(format!("{} shard {}: proptest aborted: {}", sub, shard, why));
                break;
            }
        }
    }
    crate::supervise::journal_clear();
    rep
}

/// Generate one value from a strategy with a deterministic rng (for non-proptest loops).
pub fn draw<S: Strategy>(strat: &S, runner: &mut TestRunner) -> S::Value {
    strat.new_tree(runner).expect("strategy").current()
}
pub fn det_runner(seed: u64) -> TestRunner {
    TestRunner::new_with_rng(
        Config { failure_persistence: None, ..Config::default() },
        rng_for(seed),
    )
}

/// Run `n` work items on ctx.threads threads; `work(i)` returns a SubReport fragment.
pub fn par_map(ctx: &Ctx, sub: &str, n: u64, work: impl Fn(u64, &mut SubReport) + Sync) -> SubReport {
    let threads = ctx.threads.max(1) as u64;
    let mut total = SubReport::new(sub);
    let next = std::sync::atomic::AtomicU64::new(0);
    std::thread::scope(|sc| {
        let mut hs = vec![];
        for _ in 0..threads {
            let (work, next) = (&work, &next);
            let sub = sub.to_string();
            hs.push(
                std::thread::Builder::new()
                    .stack_size(128 << 20)
                    .spawn_scoped(sc, move || {
                        let mut rep = SubReport::new(&sub);
                        loop {
                            let i = next.fetch_add(1, std::sync::atomic::Ordering::Relaxed);
                            if i >= n {
                                break;
                            }
                            if let Err((loc, msg)) = guarded(|| work(i, &mut rep)) {
                                rep.inconclusive.push(format!("{}: harness panic in work item {} at {}: {}", sub, i, loc, msg));
                            }
                        }
                        crate::supervise::journal_clear();
                        rep
                    })
                    .unwrap(),
            );
        }
        for h in hs {
            match h.join() {
                Ok(r) => total.merge(r),
                Err(_) => total.inconclusive.push(format!("{}: a worker thread died", sub)),
            }
        }
    });
    total
}

// ---------------------------------------------------------------------------------------------
// property report and evidence

pub struct PropReport {
    pub subs: Vec<SubReport>,
    pub rule: String,
    pub explanation: String,
    pub assumptions: Vec<String>,
    pub known_lines: Vec<String>,
    pub extra: BTreeMap<String, Value>,
}
impl PropReport {
    pub fn new(rule: &str, explanation: &str) -> PropReport {
        PropReport {
            subs: vec![],
            rule: rule.to_string(),
            explanation: explanation.to_string(),
            assumptions: vec![],
            known_lines: vec![],
            extra: BTreeMap::new(),
        }
    }
    pub fn push(&mut self, s: SubReport) {
        // the calling thread is between sub-checks: it is not executing any case
        crate::supervise::journal_clear();
        self.subs.push(s);
    }
    pub fn violations(&self) -> Vec<&Violation> {
        let mut seen = BTreeSet::new();
        let mut out = vec![];
        for s in &self.subs {
            for v in &s.violations {
                if seen.insert(v.signature.clone()) {
                    out.push(v);
                }
            }
        }
        out
    }
    pub fn inconclusive(&self) -> Vec<String> {
        self.subs.iter().flat_map(|s| s.inconclusive.iter().cloned()).collect()
    }
    pub fn evidence(&self, ctx: &Ctx, wall_s: f64) -> Value {
        let evaluations: u64 = self.subs.iter().map(|s| s.evaluations).sum();
        let mut nt: HashSet<(usize, u64)> = HashSet::new();
        for (i, s) in self.subs.iter().enumerate() {
            for d in &s.nontrivial {
                nt.insert((i, *d));
            }
        }
        let mut samples = vec![];
        for s in &self.subs {
            for x in s.samples.iter().take(3) {
                samples.push(json!({"subcheck": s.name, "case": x}));
            }
        }
        let nt_total: u64 = nt.len() as u64 + self.subs.iter().map(|s| s.nontrivial_extra).sum::<u64>();
        let subs: Vec<Value> = self
            .subs
            .iter()
            .map(|s| {
                json!({
                    "name": s.name,
                    "evaluations": s.evaluations,
                    "distinct_nontrivial": s.nontrivial.len() as u64 + s.nontrivial_extra,
                    "exhaustive": s.exhaustive,
                    "classes": s.classes,
                    "excluded_known_finding_cases": s.excluded,
                    "notes": s.notes,
                    "violations": s.violations.iter().map(|v| &v.signature).collect::<Vec<_>>(),
                })
            })
            .collect();
        let exhaustive_subs: Vec<&str> =
            self.subs.iter().filter(|s| s.exhaustive).map(|s| s.name.as_str()).collect();
        let mut cov = json!({
            "evaluations": evaluations,
            "distinct_nontrivial": nt_total,
            "rule": self.rule,
            "samples": samples,
            "explanation": format!("{} Exhaustively enumerated sub-checks: {:?}.", self.explanation, exhaustive_subs),
            "exhaustive": false,
            "subchecks": subs,
        });
        for (k, v) in &self.extra {
            cov[k] = v.clone();
        }
        let incon = self.inconclusive();
        if !incon.is_empty() {
            cov["inconclusive"] = json!(incon);
        }
        let mut ev = json!({
            "property_id": ctx.prop,
            "tier": ctx.tier.name(),
            "seed": ctx.seed,
            "level": "exploration",
            "coverage": cov,
            "assumptions": self.assumptions,
            "wall_s": wall_s,
        });
        if incon.is_empty() {
            ev["violations"] = json!(self.violations().len());
        }
        ev["known_findings_reproduced"] = json!(self.known_lines);
        ev
    }
}
