//! libFuzzer campaigns (thorough tier of C01 and C03): the cargo-fuzz targets under /verif/fuzz
//! are built by ./check and run here with a fixed number of runs and the VERIF_SEED.

use crate::engine::*;
use serde_json::json;
use std::path::Path;

pub fn fuzz_bin(target: &str) -> Option<String> {
    let dir = std::env::var("PV_FUZZ_BIN_DIR").ok()?;
    let p = format!("{}/{}", dir, target);
    if Path::new(&p).exists() {
        Some(p)
    } else {
        None
    }
}

/// Run one campaign. A crash artifact becomes a violation whose replay file is the artifact.
pub fn campaign(ctx: &Ctx, prop: &str, target: &str, runs: u64, max_len: u32) -> SubReport {
    campaign_env(ctx, prop, target, runs, max_len, &[])
}

/// `env`: extra environment of the fuzz processes (PV_OWNER for the lockstep_ref target).
pub fn campaign_env(ctx: &Ctx, prop: &str, target: &str, runs: u64, max_len: u32, env: &[(&str, &str)]) -> SubReport {
    let mut rep = SubReport::new(&format!("libfuzzer-{}", target));
    crate::supervise::journal_clear();
    let bin = match fuzz_bin(target) {
        Some(b) => b,
        None => {
            rep.notes.push("fuzz target not built (cargo +nightly fuzz unavailable or PUSHR_SRC override): campaign skipped".into());
            return rep;
        }
    };
    let work = format!("{}/work/fuzz-{}-{}", crate::verif_root(), target, std::process::id());
    let corpus = format!("{}/corpus", work);
    let arts = format!("{}/artifacts", work);
    let _ = std::fs::create_dir_all(&corpus);
    let _ = std::fs::create_dir_all(&arts);
    // fresh corpus seeded from the committed one
    let seed_dir = format!("{}/fuzz/corpus/{}", crate::verif_root(), target);
    if let Ok(rd) = std::fs::read_dir(&seed_dir) {
        for e in rd.flatten() {
            let _ = std::fs::copy(e.path(), format!("{}/{}", corpus, e.file_name().to_string_lossy()));
        }
    }
    let workers = ctx.threads.max(1).min(8);
    let per = runs / workers as u64;
    // one libFuzzer process per worker, each with its own corpus copy and seed
    let mut children = vec![];
    for w in 0..workers {
        let cdir = format!("{}/c{}", work, w);
        let _ = std::fs::create_dir_all(&cdir);
        if let Ok(rd) = std::fs::read_dir(&corpus) {
            for e in rd.flatten() {
                let _ = std::fs::copy(e.path(), format!("{}/{}", cdir, e.file_name().to_string_lossy()));
            }
        }
        let dict = format!("{}/fuzz/dict/{}.dict", crate::verif_root(), target);
        let mut cmd = std::process::Command::new(&bin);
        if Path::new(&dict).exists() {
            cmd.arg(format!("-dict={}", dict));
        }
        let child = cmd
            .arg(&cdir)
            .arg(format!("-runs={}", per))
            .arg(format!("-seed={}", ((ctx.seed.wrapping_mul(1000) + w as u64) % 4_000_000_000).max(1)))
            .arg("-len_control=0")
            .arg(format!("-max_len={}", max_len))
            .arg(format!("-artifact_prefix={}/", arts))
            .arg("-print_final_stats=1")
            .arg("-rss_limit_mb=3000")
            .env("RUST_BACKTRACE", "0")
            .envs(env.iter().map(|(k, v)| (k.to_string(), v.to_string())))
            .stdout(std::process::Stdio::null())
            // libFuzzer's log goes to a file: a pipe read one child after the other blocks the
            // other children as soon as their 64 KiB pipe buffer is full
            .stderr(std::fs::File::create(format!("{}/stderr{}.log", work, w)).map(std::process::Stdio::from).unwrap_or_else(|_| std::process::Stdio::null()))
            .spawn();
        match child {
            Ok(c) => children.push((cdir, format!("{}/stderr{}.log", work, w), c)),
            Err(e) => {
                rep.inconclusive.push(format!("cannot run fuzz target {}: {}", target, e));
                return rep;
            }
        }
    }
    let mut text = String::new();
    let mut execs = 0u64;
    let mut corpus_n = 0u64;
    let mut all_ok = true;
    for (cdir, logf, mut c) in children {
        match c.wait() {
            Ok(status) => {
                let t = std::fs::read(&logf).map(|b| String::from_utf8_lossy(&b).to_string()).unwrap_or_default();
                for l in t.lines() {
                    if let Some(x) = l.strip_prefix("stat::number_of_executed_units:") {
                        execs += x.trim().parse::<u64>().unwrap_or(0);
                    }
                }
                if !status.success() {
                    all_ok = false;
                    text.push_str(&t.lines().rev().take(60).collect::<Vec<_>>().into_iter().rev().collect::<Vec<_>>().join("\n"));
                }
                corpus_n += std::fs::read_dir(&cdir).map(|r| r.count()).unwrap_or(0) as u64;
            }
            Err(_) => all_ok = false,
        }
    }
    rep.evaluations = execs.max(1);
    rep.nontrivial_extra = corpus_n;
    rep.notes.push(format!("libFuzzer: {} executions in {} processes ({} requested), corpora grew to {} coverage-distinct inputs in total; distinct_nontrivial counts corpus entries", execs, workers, runs, corpus_n));
    // artifacts
    let mut found = vec![];
    if let Ok(rd) = std::fs::read_dir(&arts) {
        for e in rd.flatten() {
            found.push(e.path());
        }
    }
    if !found.is_empty() {
        let dir = format!("{}/replays/{}", crate::verif_root(), prop);
        let _ = std::fs::create_dir_all(&dir);
        for (i, a) in found.iter().enumerate().take(3) {
            let name = a.file_name().unwrap().to_string_lossy().to_string();
            let dest = format!("{}/fuzz-{}-{}", dir, target, name);
            let _ = std::fs::copy(a, &dest);
            // the crash message of the first artifact
            let msg = text.lines().filter(|l| l.contains("panicked at") || l.contains("ERROR: libFuzzer") || l.starts_with("LOCKSTEP-MISMATCH")).take(3).collect::<Vec<_>>().join(" | ").chars().take(900).collect::<String>();
            if i == 0 {
                rep.violations.push(Violation {
                    signature: format!("{}/libfuzzer-{}/crash", prop, target),
                    detail: format!("fuzz target {} crashed: {} (artifact {})", target, msg, dest),
                    subcheck: rep.name.clone(),
                    case: json!({"fuzz_artifact": dest, "target": target}),
                });
            }
        }
    } else if !all_ok {
        rep.inconclusive.push(format!("fuzz target {} exited abnormally without an artifact: {}", target, text.chars().take(600).collect::<String>()));
    }
    rep.sample(json!({"target": target, "runs": runs, "max_len": max_len, "seed_corpus": seed_dir}));
    let _ = std::fs::remove_dir_all(&work);
    rep
}

/// Replay a saved fuzz artifact: run the target binary on it.
pub fn replay_artifact(prop: &str, target: &str, path: &str) -> Result<(), Fail> {
    let bin = fuzz_bin(target).ok_or_else(|| Fail::new("replay-needs-fuzz-build", "fuzz target not built"))?;
    let out = std::process::Command::new(&bin).arg(path).env("RUST_BACKTRACE", "0").env("PV_OWNER", prop).output().map_err(|e| Fail::new("replay-spawn", e.to_string()))?;
    if out.status.success() {
        Ok(())
    } else {
        let text = String::from_utf8_lossy(&out.stderr).to_string();
        let msg = text.lines().filter(|l| l.contains("panicked at") || l.starts_with("LOCKSTEP-MISMATCH")).take(2).collect::<Vec<_>>().join(" ").chars().take(900).collect::<String>();
        Err(Fail::new(format!("libfuzzer-{}/crash", target), msg))
    }
}
