//! libFuzzer campaigns (thorough tier of C01 and C03): the cargo-fuzz targets under /verif/fuzz
//! are built by ./check and run here with a fixed number of runs and the VERIF_SEED.

use crate::engine::*;
use serde_json::json;
use std::path::Path;

pub fn fuzz_bin(target: &str) -> Option<String> {
    let dir = std::env::var("PV_FUZZ_BIN_DIR").ok()?;
    let p = format!("{}/{}", dir, target);
    if Path::new(&p).exists() {
        Some(p)
    } else {
        None
    }
}

/// Run one campaign. A crash artifact becomes a violation whose replay file is the artifact.
pub fn campaign(ctx: &Ctx, prop: &str, target: &str, runs: u64, max_len: u32) -> SubReport {
    let mut rep = SubReport::new(&format!("libfuzzer-{}", target));
    let bin = match fuzz_bin(target) {
        Some(b) => b,
        None => {
            rep.notes.push("fuzz target not built (cargo +nightly fuzz unavailable or PUSHR_SRC override): campaign skipped".into());
            return rep;
        }
    };
    let work = format!("{}/work/fuzz-{}-{}", crate::verif_root(), target, std::process::id());
    let corpus = format!("{}/corpus", work);
    let arts = format!("{}/artifacts", work);
    let _ = std::fs::create_dir_all(&corpus);
    let _ = std::fs::create_dir_all(&arts);
    // fresh corpus seeded from the committed one
    let seed_dir = format!("{}/fuzz/corpus/{}", crate::verif_root(), target);
    if let Ok(rd) = std::fs::read_dir(&seed_dir) {
        for e in rd.flatten() {
            let _ = std::fs::copy(e.path(), format!("{}/{}", corpus, e.file_name().to_string_lossy()));
        }
    }
    let workers = ctx.threads.max(1).min(8);
    let per = runs / workers as u64;
    let out = std::process::Command::new(&bin)
        .arg(&corpus)
        .arg(format!("-runs={}", per))
        .arg(format!("-seed={}", (ctx.seed % 4_000_000_000).max(1)))
        .arg("-len_control=0")
        .arg(format!("-max_len={}", max_len))
        .arg(format!("-artifact_prefix={}/", arts))
        .arg(format!("-fork={}", workers))
        .arg("-ignore_crashes=0")
        .arg("-print_final_stats=1")
        .env("RUST_BACKTRACE", "0")
        .output();
    let out = match out {
        Ok(o) => o,
        Err(e) => {
            rep.inconclusive.push(format!("cannot run fuzz target {}: {}", target, e));
            return rep;
        }
    };
    let text = String::from_utf8_lossy(&out.stderr).to_string();
    let mut execs = 0u64;
    for l in text.lines() {
        if let Some(x) = l.strip_prefix("stat::number_of_executed_units:") {
            execs += x.trim().parse::<u64>().unwrap_or(0);
        }
    }
    // with -fork the per-job stats are not always printed: fall back to the requested number
    if execs == 0 {
        for l in text.lines() {
            if l.starts_with('#') {
                if let Some(n) = l[1..].split(|c: char| !c.is_ascii_digit()).next().and_then(|x| x.parse::<u64>().ok()) {
                    execs = execs.max(n);
                }
            }
        }
    }
    rep.evaluations = execs.max(1);
    let corpus_n = std::fs::read_dir(&corpus).map(|r| r.count()).unwrap_or(0) as u64;
    rep.nontrivial_extra = corpus_n;
    rep.notes.push(format!("libFuzzer: {} executions requested ({} jobs), corpus grew to {} coverage-distinct inputs; distinct_nontrivial counts corpus entries", runs, workers, corpus_n));
    // artifacts
    let mut found = vec![];
    if let Ok(rd) = std::fs::read_dir(&arts) {
        for e in rd.flatten() {
            found.push(e.path());
        }
    }
    if !found.is_empty() {
        let dir = format!("{}/replays/{}", crate::verif_root(), prop);
        let _ = std::fs::create_dir_all(&dir);
        for (i, a) in found.iter().enumerate().take(3) {
            let name = a.file_name().unwrap().to_string_lossy().to_string();
            let dest = format!("{}/fuzz-{}-{}", dir, target, name);
            let _ = std::fs::copy(a, &dest);
            // the crash message of the first artifact
            let msg = text.lines().filter(|l| l.contains("panicked at") || l.contains("ERROR: libFuzzer")).take(2).collect::<Vec<_>>().join(" | ");
            if i == 0 {
                rep.violations.push(Violation {
                    signature: format!("{}/libfuzzer-{}/crash", prop, target),
                    detail: format!("fuzz target {} crashed: {} (artifact {})", target, msg, dest),
                    subcheck: rep.name.clone(),
                    case: json!({"fuzz_artifact": dest, "target": target}),
                });
            }
        }
    } else if !out.status.success() && !text.contains("Done") {
        rep.inconclusive.push(format!("fuzz target {} exited with {:?} without an artifact", target, out.status.code()));
    }
    rep.sample(json!({"target": target, "runs": runs, "max_len": max_len, "seed_corpus": seed_dir}));
    let _ = std::fs::remove_dir_all(&work);
    rep
}

/// Replay a saved fuzz artifact: run the target binary on it.
pub fn replay_artifact(target: &str, path: &str) -> Result<(), Fail> {
    let bin = fuzz_bin(target).ok_or_else(|| Fail::new("replay-needs-fuzz-build", "fuzz target not built"))?;
    let out = std::process::Command::new(&bin).arg(path).env("RUST_BACKTRACE", "0").output().map_err(|e| Fail::new("replay-spawn", e.to_string()))?;
    if out.status.success() {
        Ok(())
    } else {
        let text = String::from_utf8_lossy(&out.stderr).to_string();
        let msg = text.lines().filter(|l| l.contains("panicked at")).take(1).collect::<Vec<_>>().join(" ");
        Err(Fail::new(format!("libfuzzer-{}/crash", target), msg))
    }
}
