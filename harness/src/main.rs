//! pv — property-based verification harness for johker/pushr.
//!
//!   pv <Cxx> <quick|thorough>            run the checks of one property, write evidence
//!   pv <Cxx> --replay FILE               re-judge one saved case without proptest
//!
//! Exit codes: 0 held (KNOWN-FINDING lines possible), 1 violation(s), 2 inconclusive.

mod alloc;
mod engine;
mod gen;
mod props;
mod refmodel;
mod refmodel2;
mod lockstep;
mod single;
mod supervise;
mod fuzzrun;
mod envelope;
mod spec;
mod footprint;
mod exec;

use engine::*;

#[global_allocator]
static GLOBAL: alloc::Counting = alloc::Counting;
use serde_json::{json, Value};
use std::collections::BTreeSet;
use std::io::Write;
use std::sync::Arc;

pub fn verif_root() -> String {
    std::env::var("VERIF_ROOT").unwrap_or_else(|_| "/verif".to_string())
}

pub struct KnownFinding {
    pub property: String,
    pub key: String,
    pub text: String,
}

pub fn load_known(prop: &str) -> Vec<KnownFinding> {
    let path = format!("{}/known-findings.txt", verif_root());
    let mut out = vec![];
    if let Ok(txt) = std::fs::read_to_string(&path) {
        for line in txt.lines() {
            let line = line.trim();
            if !line.starts_with("known:") {
                continue;
            }
            let rest = line["known:".len()..].trim();
            let mut property = String::new();
            let mut key = String::new();
            let mut text = vec![];
            for tok in rest.split_whitespace() {
                if let Some(p) = tok.strip_prefix("property=") {
                    if property.is_empty() {
                        property = p.to_string();
                        continue;
                    }
                }
                if let Some(k) = tok.strip_prefix("key=") {
                    if key.is_empty() {
                        key = k.to_string();
                        continue;
                    }
                }
                text.push(tok);
            }
            if property == prop && !key.is_empty() {
                out.push(KnownFinding { property, key, text: text.join(" ") });
            }
        }
    }
    out
}

fn main() {
    let args: Vec<String> = std::env::args().collect();
    if args.len() < 3 {
        eprintln!("usage: pv <Cxx> <quick|thorough> | pv <Cxx> --replay FILE");
        std::process::exit(2);
    }
    let prop = args[1].clone();
    install_panic_hook();
    if !supervise::is_child() && args.len() >= 3 && (args[2] == "quick" || args[2] == "thorough") {
        // supervising parent: keeps the real stdout for the child
        std::process::exit(supervise::supervise(&args[1..].to_vec(), &prop));
    }
    exec::silence_stdout_of_pushr();

    let seed: u64 = std::env::var("VERIF_SEED").ok().and_then(|s| s.trim().parse::<i64>().ok()).map(|v| v as u64).unwrap_or(1);
    let threads: usize = std::env::var("PV_THREADS").ok().and_then(|s| s.parse().ok()).unwrap_or_else(|| {
        std::thread::available_parallelism().map(|n| n.get()).unwrap_or(8).min(16)
    });
    let known = load_known(&prop);
    let known_keys: BTreeSet<String> = known.iter().map(|k| k.key.clone()).collect();

    if args[2] == "--leg" {
        let lseed: u64 = args.get(3).and_then(|s| s.parse().ok()).unwrap_or(1);
        let n: u64 = args.get(4).and_then(|s| s.parse().ok()).unwrap_or(0);
        props::leg(&prop, lseed, n, &args[5..]);
        std::process::exit(0);
    }
    if args[2] == "--coverage" {
        // which registered instructions does the reference model value-check, and who owns them?
        let mut r = engine::det_runner(1);
        for name in exec::registry_names() {
            let fp = footprint::get(&name);
            let owner = fp.as_ref().map(|f| f.owner.clone()).unwrap_or_else(|| "-".into());
            let (mut modelled, mut unspecified, mut compared) = (0, 0, 0);
            let params = gen::StateParams::full(vec!["NOOP".into()]);
            let strat = single::state_for_any(vec![name.clone()], &params);
            for _ in 0..60 {
                let (_, mut s) = engine::draw(&strat, &mut r);
                envelope::clamp_sizes_spec(&mut s, &name);
                match refmodel::ref_instr(&s.canonical(), &name) {
                    refmodel::Expect::NotModelled => {}
                    refmodel::Expect::Unspecified(_) => {
                        modelled += 1;
                        unspecified += 1;
                    }
                    _ => {
                        modelled += 1;
                        compared += 1;
                    }
                }
            }
            exec::say(&format!("{}\towner={}\tmodelled={}\tcompared={}\tunspecified={}", name, owner, modelled, compared, unspecified));
        }
        std::process::exit(0);
    }
    if args[2] == "--digest" {
        props::c04::digest_file(args.get(3).map(|s| s.as_str()).unwrap_or(""));
        std::process::exit(0);
    }
    if args[2] == "--exec-journal" {
        supervise::set_rlimit_as(supervise::AS_LIMIT_CONFIRM);
        let txt = std::fs::read_to_string(args.get(3).map(|s| s.as_str()).unwrap_or("")).unwrap_or_default();
        let v: Value = serde_json::from_str(&txt).unwrap_or(Value::Null);
        match supervise::exec_journalled(&v) {
            Ok(()) => std::process::exit(0),
            Err(e) => {
                exec::say(&format!("exec-journal: {}", e));
                std::process::exit(3);
            }
        }
    }
    if !supervise::is_child() && (args[2] == "quick" || args[2] == "thorough") {
        std::process::exit(supervise::supervise(&args[1..].to_vec(), &prop));
    }
    if supervise::is_child() {
        supervise::set_rlimit_as(supervise::AS_LIMIT_BYTES);
    }
    if args[2] == "--replay" {
        let file = args.get(3).expect("--replay FILE");
        // a libFuzzer artifact (saved as fuzz-<target>-crash-...) is replayed through its target
        let base = std::path::Path::new(file).file_name().map(|x| x.to_string_lossy().to_string()).unwrap_or_default();
        if let Some(rest) = base.strip_prefix("fuzz-") {
            let target = if rest.starts_with("parse_text") {
                "parse_text"
            } else if rest.starts_with("lockstep_ref") {
                "lockstep_ref"
            } else if rest.starts_with("roundtrip_text") {
                "roundtrip_text"
            } else {
                "exec_program"
            };
            match fuzzrun::replay_artifact(&prop, target, file) {
                Ok(()) => {
                    exec::say(&format!("replay: fuzz artifact no longer crashes {}", target));
                    std::process::exit(0);
                }
                Err(f) if f.signature.starts_with("replay-") => {
                    exec::say(&format!("INCONCLUSIVE: {} :: {}", f.signature, f.detail));
                    std::process::exit(2);
                }
                Err(f) => {
                    exec::say(&format!("replay: {} :: {}", f.signature, f.detail));
                    exec::say(&format!("VIOLATION property={} replay={}", prop, file));
                    std::process::exit(1);
                }
            }
        }
        let txt = std::fs::read_to_string(file).expect("read replay file");
        let v: Value = serde_json::from_str(&txt).expect("replay json");
        let ctx = Ctx { prop: prop.clone(), tier: Tier::Quick, seed, threads, known: Arc::new(BTreeSet::new()) };
        let sub = v.get("subcheck").and_then(|s| s.as_str()).unwrap_or("").to_string();
        let case = v.get("case").cloned().unwrap_or(Value::Null);
        if sub == "crash" {
            std::process::exit(supervise::replay_crash(&prop, file, &case));
        }
        // a violation found by a libFuzzer campaign: the case names the saved artifact
        if let (Some(art), Some(target)) = (case.get("fuzz_artifact").and_then(|x| x.as_str()), case.get("target").and_then(|x| x.as_str())) {
            match fuzzrun::replay_artifact(&prop, target, art) {
                Ok(()) => {
                    exec::say(&format!("replay: fuzz artifact no longer crashes {}", target));
                    std::process::exit(0);
                }
                Err(f) if f.signature.starts_with("replay-") => {
                    exec::say(&format!("INCONCLUSIVE: {} :: {}", f.signature, f.detail));
                    std::process::exit(2);
                }
                Err(f) => {
                    exec::say(&format!("replay: {} :: {}", f.signature, f.detail));
                    exec::say(&format!("VIOLATION property={} replay={}", prop, file));
                    std::process::exit(1);
                }
            }
        }
        // A failure that needs state left behind by earlier cases of its run (a memo, a static)
        // does not reproduce from the case alone: when the case passes in isolation (or cannot be
        // decoded), the recorded run - same seed, quick tier - is executed again and the recorded
        // signature is looked for.
        let rerun = |why: &str| -> ! {
            let rec_seed = v.get("seed").and_then(|x| x.as_u64()).unwrap_or(seed);
            let rec_sig = v.get("signature").and_then(|x| x.as_str()).unwrap_or("").to_string();
            let ctx2 = Ctx { prop: prop.clone(), tier: Tier::Quick, seed: rec_seed, threads, known: Arc::new(load_known(&prop).into_iter().map(|k| k.key).collect()) };
            let hit = props::run(&ctx2).map(|r| r.violations().iter().any(|x| x.signature == rec_sig)).unwrap_or(false);
            if hit && !rec_sig.is_empty() {
                exec::say(&format!("replay: {}; re-running the recorded run (seed {}) reproduces {}", why, rec_seed, rec_sig));
                exec::say(&format!("VIOLATION property={} replay={}", prop, file));
                std::process::exit(1);
            }
            exec::say(&format!("replay: property={} subcheck={}: {}; the recorded run (seed {}) no longer reports {}", prop, sub, why, rec_seed, rec_sig));
            std::process::exit(0);
        };
        match props::replay(&ctx, &sub, &case) {
            Ok(()) => rerun("the case holds in isolation"),
            Err(f) if f.signature == "replay-format" || f.signature == "replay-unsupported" => rerun("the case is not replayable by itself"),
            Err(f) => {
                exec::say(&format!("replay: {} :: {}", f.signature, f.detail));
                exec::say(&format!("VIOLATION property={} replay={}", prop, file));
                std::process::exit(1);
            }
        }
    }

    let tier = match std::env::var("VERIF_TIER").ok().as_deref() {
        Some("quick") => Tier::Quick,
        Some("thorough") => Tier::Thorough,
        _ => match args[2].as_str() {
            "thorough" => Tier::Thorough,
            _ => Tier::Quick,
        },
    };
    let ctx = Ctx { prop: prop.clone(), tier, seed, threads, known: Arc::new(known_keys) };
    let start = std::time::Instant::now();
    let mut report = match props::run(&ctx) {
        Some(r) => r,
        None => {
            eprintln!("unknown property {}", prop);
            std::process::exit(2);
        }
    };
    // known-finding probes: print a line for every listed finding that still reproduces
    for k in &known {
        match props::probe_known(&ctx, &k.key) {
            Some(true) => {
                let line = format!("KNOWN-FINDING: property={} key={} {}", prop, k.key, k.text);
                exec::say(&line);
                report.known_lines.push(line);
            }
            Some(false) => {
                exec::say(&format!("note: listed finding key={} no longer reproduces (not suppressed, nothing to report)", k.key));
            }
            None => {
                exec::say(&format!("note: listed finding key={} has no probe in this build", k.key));
            }
        }
    }
    let wall = start.elapsed().as_secs_f64();
    let ev = report.evidence(&ctx, wall);
    let evdir = format!("{}/evidence", verif_root());
    let _ = std::fs::create_dir_all(&evdir);
    let evpath = format!("{}/{}.json", evdir, prop);
    std::fs::write(&evpath, serde_json::to_string_pretty(&ev).unwrap()).expect("write evidence");

    let viols = report.violations();
    let mut code = 0;
    if !viols.is_empty() {
        let dir = format!("{}/replays/{}", verif_root(), prop);
        let _ = std::fs::create_dir_all(&dir);
        for v in &viols {
            let sig_file: String = v.signature.chars().map(|c| if c.is_ascii_alphanumeric() || c == '.' || c == '-' || c == '_' { c } else { '_' }).collect();
            let body = json!({"property": prop, "subcheck": v.subcheck, "signature": v.signature, "detail": v.detail, "case": v.case, "seed": seed, "tier": tier.name()});
            let text = serde_json::to_string_pretty(&body).unwrap();
            let path = format!("{}/{}-{:08x}.json", dir, sig_file.chars().take(80).collect::<String>(), spec::hash_str(&text) as u32);
            let mut f = std::fs::File::create(&path).expect("write replay");
            f.write_all(text.as_bytes()).unwrap();
            exec::say(&format!("violation: [{}] {} :: {}", v.subcheck, v.signature, v.detail));
            exec::say(&format!("VIOLATION property={} replay={}", prop, path));
        }
        code = 1;
    }
    let incon = report.inconclusive();
    if !incon.is_empty() {
        for i in &incon {
            exec::say(&format!("INCONCLUSIVE: {}", i));
        }
        if code == 0 {
            code = 2;
        }
    }
    let evs: u64 = report.subs.iter().map(|s| s.evaluations).sum();
    exec::say(&format!(
        "pv {} {} seed={} evaluations={} violations={} known_findings={} wall={:.1}s",
        prop, tier.name(), seed, evs, viols.len(), report.known_lines.len(), wall
    ));
    std::process::exit(code);
}
