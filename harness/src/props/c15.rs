//! C15 — a step's time and memory are bounded by the state, not by operand magnitude.
//!
//! By design of the current code this property does not hold (no instruction consults
//! max_points_in_program and a dozen instructions allocate operand x element size). Each
//! offending instruction is a listed known finding; anything not listed is reported.

use crate::alloc;
use crate::engine::*;
use crate::exec::with_machine;
use crate::footprint;
use crate::gen;
use crate::single::*;
use crate::spec::*;
use proptest::prelude::*;
use serde_json::{json, Value};

/// ascending in magnitude (negatives first); the sweep of one (instruction, position, base state) stops at
/// the first failure, so the magnitudes above 2^22 are only executed by instructions whose
/// allocation did not grow with the operand up to 2^22
const MAGNITUDES: [i32; 17] = [-1, -65536, -(1 << 22), -(1 << 30), i32::MIN, 0, 16, 256, 4096, 65536, 1 << 18, 1 << 20, 1 << 22, 1 << 26, 1 << 30, i32::MAX - 1, i32::MAX];

/// CPU time of the calling thread in seconds (not wall clock: unaffected by the other shards)
fn thread_cpu() -> f64 {
    let mut ts = libc::timespec { tv_sec: 0, tv_nsec: 0 };
    unsafe {
        libc::clock_gettime(libc::CLOCK_THREAD_CPUTIME_ID, &mut ts);
    }
    ts.tv_sec as f64 + ts.tv_nsec as f64 * 1e-9
}
/// one step on a state of a few dozen cells may not burn this much CPU time (the slowest
/// legitimate step on such a state takes microseconds; the threshold is 5 orders above that)
const STEP_CPU_LIMIT: f64 = 0.4;

/// the fixed small states: operands of every kind present, in three shapes of the top items
fn base_variants() -> Vec<(&'static str, StateSpec)> {
    let mixed = base_state();
    let mut empty = base_state();
    empty.bvecs.insert(0, vec![]);
    empty.ivecs.insert(0, vec![]);
    empty.fvecs.insert(0, vec![]);
    empty.code.insert(0, ItemSpec::List(vec![]));
    empty.exec.insert(0, ItemSpec::List(vec![]));
    empty.graphs.insert(0, GraphSpec::default());
    empty.input.insert(0, MsgSpec { header: vec![], body: vec![] });
    let mut atom = base_state();
    atom.bvecs.insert(0, vec![true]);
    atom.ivecs.insert(0, vec![7]);
    atom.fvecs.insert(0, vec![7.5]);
    atom.code.insert(0, ItemSpec::name("x"));
    atom.code.insert(1, ItemSpec::Int(4));
    atom.exec.insert(0, ItemSpec::name("y"));
    vec![("mixed", mixed), ("empty-tops", empty), ("atom-tops", atom)]
}

/// a fixed small state with every operand stack populated
fn base_state() -> StateSpec {
    let mut s = StateSpec::default();
    s.bools = vec![true, false, true];
    s.ints = vec![3, 2, 2, 1, 5];
    s.floats = vec![0.5, 0.25, 1.0, 2.0];
    s.names = vec!["a".into(), "b".into(), "c".into()];
    s.code = vec![ItemSpec::List(vec![ItemSpec::Int(1), ItemSpec::name("x")]), ItemSpec::Int(2), ItemSpec::List(vec![])];
    s.exec = vec![ItemSpec::List(vec![ItemSpec::instr("NOOP")]), ItemSpec::Int(7), ItemSpec::instr("NOOP")];
    s.bvecs = vec![vec![true, false, true], vec![false, true]];
    s.ivecs = vec![vec![1, 2, 3], vec![9, 5]];
    s.fvecs = vec![vec![0.5, 1.5], vec![2.5, 2.0, 1.0]];
    s.index = vec![(0, 3)];
    s.input = vec![MsgSpec { header: vec![1], body: vec![true, false] }];
    s.graphs = vec![GraphSpec { nodes: vec![(0, 1), (1, 0)], edges: vec![(0, 1, 0.5)] }];
    s
}

fn state_bytes(s: &StateSpec) -> u64 {
    (s.cells() as u64) * 16
}

fn magnitude_checks(ctx: &Ctx) -> SubReport {
    let names = crate::exec::registry_names();
    let mut rep = par_map(ctx, "allocation-vs-operand-magnitude", names.len() as u64, |ni, rep| {
        let name = &names[ni as usize];
        let fp = match footprint::get(name) {
            Some(f) => f,
            None => return,
        };
        let int_need = fp.need.iter().find(|(c, _)| *c == "INTEGER").map(|(_, n)| *n).unwrap_or(0);
        if int_need == 0 {
            return;
        }
        for (variant, base) in base_variants() {
        let budget = 64 * 1024 + 8 * state_bytes(&base);
        for pos in 0..int_need.min(4) {
            let mut at_4096 = 0u64;
            for v in MAGNITUDES {
                let mut s = base.clone();
                if pos < s.ints.len() {
                    s.ints[pos] = v;
                }
                if name == "INTVECTOR.RAND" && pos == 0 {
                    s.ints[1] = 100;
                    s.ints[2] = 0;
                }
                rep.evaluations += 1;
                crate::supervise::journal_instr("C15", name, &s);
                let (mut st, _) = s.build();
                let t0 = thread_cpu();
                let (r, bytes) = alloc::measure(|| guarded(|| with_machine(|m| m.step_named(&mut st, name))));
                let cpu = thread_cpu() - t0;
                drop(st);
                let case = json!({"instruction": name, "integer_position": pos, "operand": v, "base": variant, "state": s.to_json(), "bytes_requested": bytes, "cpu_seconds": cpu});
                if let Err((l, m)) = r {
                    rep.fail(ctx, Fail::new(format!("C15/{}/panic@{}", name, l), format!("operand {} at INTEGER position {}: {}", v, pos, m)), case);
                    break;
                }
                if cpu > STEP_CPU_LIMIT && bytes <= budget {
                    // one root cause - work proportional to the operand - shows as bytes or as time:
                    // a listed alloc-by-operand finding of this instruction covers both symptoms
                    let listed = format!("C15/alloc-by-operand/{}", name);
                    let sig = if ctx.known.contains(&listed) { listed } else { format!("C15/time-by-operand/{}", name) };
                    rep.fail(
                        ctx,
                        Fail::new(sig, format!("{} with {} at INTEGER position {} used {:.2} s of CPU time in one step on a state of {} cells ({} base state)", name, v, pos, cpu, base.cells(), variant)),
                        case,
                    );
                    break;
                }
                if v == 4096 {
                    at_4096 = bytes;
                }
                let scaling = v == (1 << 22) && bytes > 4 * at_4096.max(4096) && bytes > budget;
                if bytes > budget || scaling {
                    rep.fail(
                        ctx,
                        Fail::new(
                            format!("C15/alloc-by-operand/{}", name),
                            format!("{} with {} at INTEGER position {} requested {} bytes in one step on a state of {} bytes (budget {}; at operand 4096: {} bytes)", name, v, pos, bytes, state_bytes(&base), budget, at_4096),
                        ),
                        case,
                    );
                    break;
                }
                if v >= 4096 || v <= -65536 {
                    let mut h = Fnv::new();
                    h.str(name);
                    h.str(variant);
                    h.u64(pos as u64);
                    h.u64(v as u64);
                    rep.nontrivial.insert(h.0);
                }
                if ni % 23 == 0 && v == 4096 {
                    rep.sample(json!({"instruction": name, "operand": v, "base": variant, "integer_position": pos, "bytes_requested": bytes}));
                }
            }
        }
        }
    });
    // FLOAT operands: a step must not take time (or memory) growing with the magnitude; time is
    // observed through the supervising watchdog (a stuck case is confirmed in a fresh process)
    let fnames: Vec<String> = names.iter().filter(|n| footprint::get(n).map(|f| f.need.iter().any(|(c, _)| *c == "FLOAT")).unwrap_or(false)).cloned().collect();
    let frep = par_map(ctx, "float-operand-magnitude", fnames.len() as u64, |ni, rep| {
        let name = &fnames[ni as usize];
        let fp = footprint::get(name).unwrap();
        let need = fp.need.iter().find(|(c, _)| *c == "FLOAT").map(|(_, n)| *n).unwrap_or(0);
        for (variant, base) in base_variants() {
        let budget = 64 * 1024 + 8 * state_bytes(&base);
        for pos in 0..need.min(3) {
            for v in [1e3f32, -1e3, 1e6, 1e9, -2.5e8, 3e12, 1e30, f32::MAX, f32::MIN, f32::INFINITY, f32::NAN, 1e-30] {
                let mut s = base.clone();
                s.floats[pos] = v;
                if fp.size_at.is_some() {
                    s.ints[fp.size_at.unwrap()] = 8;
                }
                rep.evaluations += 1;
                crate::supervise::journal_instr("C15", name, &s);
                let (mut st, _) = s.build();
                let t0 = thread_cpu();
                let (r, bytes) = alloc::measure(|| guarded(|| with_machine(|m| m.step_named(&mut st, name))));
                let cpu = thread_cpu() - t0;
                drop(st);
                let case = json!({"instruction": name, "float_position": pos, "operand": fjson(v), "base": variant, "state": s.to_json(), "bytes_requested": bytes, "cpu_seconds": cpu});
                if r.is_ok() && cpu > STEP_CPU_LIMIT && bytes <= budget {
                    rep.fail(ctx, Fail::new(format!("C15/time-by-operand/{}", name), format!("{} with FLOAT {} at position {} used {:.2} s of CPU time in one step ({} base state)", name, v, pos, cpu, variant)), case);
                    break;
                }
                if let Err((l, m)) = r {
                    rep.fail(ctx, Fail::new(format!("C15/{}/panic@{}", name, l), format!("FLOAT operand {} at position {}: {}", v, pos, m)), case);
                    break;
                }
                if bytes > budget {
                    rep.fail(ctx, Fail::new(format!("C15/alloc-by-operand/{}", name), format!("{} with FLOAT {} at position {} requested {} bytes (budget {})", name, v, pos, bytes, budget)), case);
                    break;
                }
                if v.abs() >= 1e6 {
                    let mut h = Fnv::new();
                    h.str(name);
                    h.str(variant);
                    h.u64(pos as u64);
                    h.u64(v.to_bits() as u64);
                    rep.nontrivial.insert(h.0);
                }
            }
        }
        }
        crate::supervise::journal_clear();
    });
    rep.merge(frep);
    rep.exhaustive = true;
    rep.notes.push("every registered instruction with a FLOAT operand x each FLOAT position x magnitudes up to f32::MAX / inf / NaN (hangs are detected by the supervising parent)".into());
    rep.notes.push("every registered instruction with an INTEGER operand x each of its INTEGER operand positions x magnitudes {-2^31, -2^30, -1, 0, 2^4, 2^8, 2^12, 2^16, 2^18, 2^20, 2^22, 2^26, 2^30, 2^31-1} x three fixed small base states (mixed tops, empty vectors/lists/graph on top, atoms and singletons on top); bytes requested during the step measured by a counting allocator, CPU time of the step by CLOCK_THREAD_CPUTIME_ID (limit 0.4 s); a sweep stops at its first failure, so magnitudes above the first offending one are not executed".into());
    rep
}

/// (N) time against the NESTING DEPTH of the code operands: a state whose top CODE / EXEC items
/// are nested d levels deep has about 2d points, so a step may cost a small multiple of d (or
/// d^2) - not 2^d. Depths ascend and the sweep of an instruction stops at its first failure.
fn nesting_checks(ctx: &Ctx) -> SubReport {
    let names: Vec<String> = crate::exec::registry_names()
        .into_iter()
        .filter(|n| footprint::get(n).map(|f| f.need.iter().any(|(c, _)| *c == "CODE" || *c == "EXEC")).unwrap_or(false))
        .collect();
    let chain = |d: usize, inner: i32| -> ItemSpec {
        let mut t = ItemSpec::List(vec![ItemSpec::Int(inner)]);
        for k in 0..d {
            t = if k % 3 == 1 { ItemSpec::List(vec![ItemSpec::Int(k as i32), t]) } else { ItemSpec::List(vec![t]) };
        }
        t
    };
    let mut rep = par_map(ctx, "time-vs-nesting-depth", names.len() as u64, |ni, rep| {
        let name = &names[ni as usize];
        for d in [4usize, 8, 12, 16, 18, 20, 22, 24, 26, 28, 32, 40, 64, 128] {
            let mut s = base_state();
            s.code = vec![chain(d, 5), chain(d, 5), chain(d, 6)];
            s.exec = vec![chain(d, 7), chain(d, 7), chain(d, 8)];
            s.ints = vec![1, 1, 0, 2];
            rep.evaluations += 1;
            crate::supervise::journal_instr("C15", name, &s);
            let (mut st, _) = s.build();
            let t0 = thread_cpu();
            let r = guarded(|| with_machine(|m| m.step_named(&mut st, name)));
            let cpu = thread_cpu() - t0;
            drop(st);
            let case = json!({"instruction": name, "nesting_depth": d, "state": s.to_json(), "cpu_seconds": cpu});
            if let Err((l, m)) = r {
                rep.fail(ctx, Fail::new(format!("C15/{}/panic@{}", name, l), format!("nesting depth {}: {}", d, m)), case);
                break;
            }
            if cpu > STEP_CPU_LIMIT {
                rep.fail(ctx, Fail::new(format!("C15/time-by-nesting/{}", name), format!("{} on code nested {} levels deep ({} points in the state) used {:.2} s of CPU time in one step", name, d, s.cells(), cpu)), case);
                break;
            }
            if d >= 16 {
                let mut h = Fnv::new();
                h.str(name);
                h.u64(d as u64);
                rep.nontrivial.insert(h.0);
            }
            if ni % 29 == 0 && d == 24 {
                rep.sample(json!({"instruction": name, "nesting_depth": d, "cpu_seconds": cpu}));
            }
        }
        crate::supervise::journal_clear();
    });
    rep.exhaustive = true;
    rep.notes.push("every registered instruction with a CODE or EXEC operand x nesting depths 4..128 of its code operands; CPU time of the step (limit 0.4 s)".into());
    rep
}

// ---------------------------------------------------------------------------------------------
// (P) growth programs

/// points of the largest CODE / EXEC item (bound items count as existing items)
fn largest(s: &StateSpec) -> usize {
    s.code.iter().chain(s.exec.iter()).chain(s.bindings.values()).map(|x| x.points()).max().unwrap_or(0)
}

fn growth_program() -> BoxedStrategy<StateSpec> {
    let builder = prop::sample::select(vec![
        "CODE.DUP", "CODE.LIST", "CODE.APPEND", "CODE.CONS", "CODE.SUBST", "CODE.INSERT", "CODE.SWAP", "CODE.ROT", "EXEC.S", "EXEC.DUP", "LIST.ADD", "LIST.SET", "LIST.GET", "NAME.CAT", "NAME.DUP", "INTVECTOR.APPEND",
        "FLOATVECTOR.APPEND", "INTVECTOR.DUP", "CODE.CONTAINER", "CODE.EXTRACT", "CODE.NTH", "CODE.DO", "CODE.DO*", "CODE.CDR", "CODE.CAR", "CODE.DEFINE", "CODE.DEFINITION", "EXEC.DEFINE", "CODE.FROMINTEGER", "INTVECTOR.FROMINT",
    ])
    .prop_map(|s| ItemSpec::instr(s));
    let lit = prop_oneof![(0i32..6).prop_map(ItemSpec::Int), Just(ItemSpec::IVec(vec![3, 3])), Just(ItemSpec::IVec(vec![3, 9, 4])), Just(ItemSpec::name("a")), Just(ItemSpec::List(vec![ItemSpec::instr("CODE.QUOTE"), ItemSpec::List(vec![ItemSpec::Int(1), ItemSpec::Int(2)])]))];
    let body = prop::collection::vec(prop_oneof![4 => builder, 1 => lit], 1..7).prop_map(ItemSpec::List);
    let looped = (body, 0u8..3, 3i32..40).prop_map(|(b, kind, n)| match kind {
        0 => vec![ItemSpec::instr("EXEC.Y"), b],
        1 => vec![ItemSpec::Int(n), ItemSpec::instr("INDEX.DEFINE"), ItemSpec::instr("EXEC.LOOP"), b],
        _ => vec![ItemSpec::instr("EXEC.DUP"), ItemSpec::List(vec![ItemSpec::instr("EXEC.DUP"), ItemSpec::List(vec![ItemSpec::instr("EXEC.DUP"), b])])],
    });
    (looped, prop::collection::vec(gen::tree(&gen::AtomKinds { vectors: false, ..gen::AtomKinds::all(vec!["NOOP".into()]) }, 2, 6, 3), 1..4))
        .prop_map(|(prog, code)| {
            let mut s = StateSpec::default();
            s.exec = vec![ItemSpec::List(prog)];
            s.code = code;
            s.names = vec!["n1".into(), "n2".into()];
            s.ints = vec![1, 2, 3];
            s.ivecs = vec![vec![1]];
            s.fvecs = vec![vec![1.0]];
            s.floats = vec![1.0, 2.0];
            s
        })
        .boxed()
}

fn judge_growth(s: &StateSpec) -> CaseResult {
    let limit = s.config.max_points_in_program as usize;
    crate::supervise::journal_program("C15", s, 1000, "step");
    let (mut st, _) = s.build();
    let mut before = largest(s);
    let mut steps = 0;
    for _ in 0..s.config.eval_push_limit.min(1000) {
        let label = match st.exec_stack.get(0) {
            Some(pushr::push::item::Item::InstructionMeta { name }) => name.clone(),
            Some(pushr::push::item::Item::List { .. }) => "<list>".to_string(),
            Some(_) => "<literal-or-name>".to_string(),
            None => break,
        };
        let r = guarded(|| with_machine(|m| m.step(&mut st)));
        match r {
            Err((l, m)) => return Err(Fail::new(format!("C15/{}/panic@{}", label, l), m)),
            Ok(true) => break,
            Ok(false) => {}
        }
        steps += 1;
        if crate::envelope::outside(&st) {
            break;
        }
        let snap = StateSpec::snapshot(&st);
        let after = largest(&snap);
        // an item grew beyond the limit: larger than the limit and larger than every item that
        // existed before the step (copies and sub-items of an already oversize item are not growth)
        if after > limit && after > before {
            return Err(Fail::new(
                format!("C15/points-limit/{}", label),
                format!("after {} (step {}) a CODE/EXEC item has {} points (largest before the step: {}) although max_points_in_program = {} | program {}", label, steps, after, before, limit, s.exec[0].render()),
            ));
        }
        before = after;
    }
    Ok(CaseOut::new(steps >= 20, s.digest()).class(format!("steps{}", (steps / 100) * 100)))
}

pub fn run(ctx: &Ctx) -> PropReport {
    let mut rep = PropReport::new(
        "(M) every registered instruction that takes INTEGER operands x each INTEGER operand position x magnitudes from -2^31 to 2^31-1 on three fixed small states (instructions without size operands are the control group); (P) generated loops (EXEC.Y, EXEC.LOOP, nested EXEC.DUP) around code-building instructions, single-stepped under the default limits with a monitor; non-trivial = (M) operand >= 4096, (P) >= 20 steps executed; distinct = (instruction, position, operand) / program digest",
        "INV measured by a counting global allocator: bytes requested during one step <= 64 KiB + 8 x (bytes of the state before the step) for every operand value, the bytes at 2^22 must not exceed 4 x the bytes at 2^12, and the step uses at most 0.4 s of thread CPU time; after every step no CODE/EXEC item has more than max_points_in_program points unless an equal item existed before the step (the instruction that created it is the signature).",
    );
    rep.assumptions.push("time is the thread CPU time of the step (limit 0.4 s on states of a few dozen cells) plus the supervising watchdog for hangs".into());
    rep.assumptions.push("known findings: one per offending instruction (alloc-by-operand/<NAME>, points-limit/<NAME>), listed in known-findings.txt".into());
    rep.push(magnitude_checks(ctx));
    rep.push(nesting_checks(ctx));
    rep.push(run_sharded(ctx, "growth-programs", ctx.tier.pick(30_000, 300_000), growth_program, judge_growth, |s| json!({"state": s.to_json(), "program": s.exec[0].render()})));
    rep
}

pub fn replay(_ctx: &Ctx, sub: &str, case: &Value) -> Result<(), Fail> {
    let bad = || Fail::new("replay-format", "cannot decode C15 case");
    let s = StateSpec::from_json(case.get("state").ok_or_else(bad)?).ok_or_else(bad)?;
    if sub == "growth-programs" {
        return judge_growth(&s).map(|_| ());
    }
    let name = case.get("instruction").and_then(|x| x.as_str()).ok_or_else(bad)?;
    let (mut st, _) = s.build();
    let t0 = thread_cpu();
    let (r, bytes) = alloc::measure(|| guarded(|| with_machine(|m| m.step_named(&mut st, name))));
    let cpu = thread_cpu() - t0;
    if let Err((l, m)) = r {
        return Err(Fail::new(format!("C15/{}/panic@{}", name, l), m));
    }
    let budget = 64 * 1024 + 8 * state_bytes(&s);
    if cpu > STEP_CPU_LIMIT && bytes <= budget {
        let kind = if case.get("nesting_depth").is_some() { "time-by-nesting" } else { "time-by-operand" };
        return Err(Fail::new(format!("C15/{}/{}", kind, name), format!("{:.2} s of CPU time in one step", cpu)));
    }
    if case.get("nesting_depth").is_some() {
        return Ok(());
    }
    if bytes > budget {
        return Err(Fail::new(format!("C15/alloc-by-operand/{}", name), format!("{} bytes requested, budget {}", bytes, budget)));
    }
    Ok(())
}

/// deterministic probes of the listed known findings
pub fn probe_known(key: &str) -> Option<bool> {
    if let Some(name) = key.strip_prefix("C15/alloc-by-operand/") {
        let fp = footprint::get(name)?;
        let base = base_state();
        let budget = 64 * 1024 + 8 * state_bytes(&base);
        let int_need = fp.need.iter().find(|(c, _)| *c == "INTEGER").map(|(_, n)| *n).unwrap_or(0);
        for pos in 0..int_need.min(4) {
            let mut s = base.clone();
            s.ints[pos] = 1 << 20;
            if name == "INTVECTOR.RAND" && pos == 0 {
                s.ints[1] = 100;
                s.ints[2] = 0;
            }
            let (mut st, _) = s.build();
            let (_, bytes) = alloc::measure(|| guarded(|| with_machine(|m| m.step_named(&mut st, name))));
            if bytes > budget {
                return Some(true);
            }
        }
        // the other symptom of the same root cause: time proportional to the operand
        for pos in 0..int_need.min(4) {
            let mut s = base.clone();
            s.ints[pos] = 1 << 30;
            if name == "INTVECTOR.RAND" && pos == 0 {
                s.ints[1] = 100;
                s.ints[2] = 0;
            }
            let (mut st, _) = s.build();
            let t0 = thread_cpu();
            let (_, bytes) = alloc::measure(|| guarded(|| with_machine(|m| m.step_named(&mut st, name))));
            if bytes <= budget && thread_cpu() - t0 > STEP_CPU_LIMIT {
                return Some(true);
            }
        }
        return Some(false);
    }
    if let Some(name) = key.strip_prefix("C15/points-limit/") {
        // programs that let exactly this instruction create the first oversize item
        let big = |n: i32| ItemSpec::List((0..n).map(ItemSpec::Int).collect());
        let i = |n: &str| ItemSpec::instr(n);
        let q = |t: ItemSpec| vec![ItemSpec::instr("CODE.QUOTE"), t];
        let mut progs: Vec<Vec<ItemSpec>> = vec![];
        match name {
            "CODE.LIST" | "CODE.APPEND" | "CODE.CONS" => {
                let mut p = q(big(60));
                p.extend(q(big(60)));
                p.push(i(name));
                progs.push(p);
            }
            "CODE.INSERT" => {
                let mut p = q(big(60));
                p.extend(q(big(60)));
                p.push(ItemSpec::Int(1));
                p.push(i(name));
                progs.push(p);
            }
            "CODE.SUBST" => {
                // target (top) = 60 ints, substitute = 60 ints, pattern = 5
                let mut p = q(ItemSpec::Int(5));
                p.extend(q(big(60)));
                p.extend(q(big(60)));
                p.push(i(name));
                progs.push(p);
            }
            "EXEC.S" => progs.push(vec![i(name), ItemSpec::Int(1), big(60), big(60)]),
            "EXEC.Y" => progs.push(vec![i(name), big(99), i("EXEC.FLUSH")]),
            "EXEC.LOOP" => progs.push(vec![ItemSpec::Int(3), i("INDEX.DEFINE"), i(name), big(98), i("EXEC.FLUSH")]),
            "CODE.LOOP" => {
                let mut p = q(big(98));
                p.extend(vec![ItemSpec::Int(3), i("INDEX.DEFINE"), i(name), i("EXEC.FLUSH")]);
                progs.push(p);
            }
            "INTVECTOR.LOOP" => progs.push(vec![ItemSpec::IVec(vec![1, 2]), i(name), big(98), i("EXEC.FLUSH")]),
            "LIST.ADD" => {
                let mut p = q(big(60));
                p.extend(q(big(60)));
                p.push(ItemSpec::IVec(vec![3, 3]));
                p.push(i(name));
                progs.push(p);
            }
            "LIST.SET" => {
                let mut p = q(ItemSpec::Int(0));
                p.extend(q(big(60)));
                p.extend(q(big(60)));
                // the two big items are collected from CODE; the record replaces what is then at position 0
                p.push(ItemSpec::IVec(vec![3, 3]));
                p.push(ItemSpec::Int(0));
                p.push(i(name));
                progs.push(p);
            }
            _ => {}
        }
        for p in progs {
            let mut s = StateSpec::default();
            s.exec = vec![ItemSpec::List(p)];
            if let Err(f) = judge_growth(&s) {
                if f.signature == key {
                    return Some(true);
                }
            }
        }
        return Some(false);
    }
    None
}
