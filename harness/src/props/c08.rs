//! C08 — CODE list surgery is coherent with depth-first point indexing.

use crate::engine::*;
use crate::exec::step_named_on;
use crate::gen;
use crate::refmodel::{container, occurs, replace_at, subst};
use crate::single::*;
use crate::spec::*;
use proptest::prelude::*;
use pushr::push::item::Item;
use serde_json::{json, Value};

pub const NAMES: [&str; 20] = [
    "CODE.SIZE", "CODE.EXTRACT", "CODE.INSERT", "CODE.POSITION", "CODE.CONTAINER", "CODE.SUBST", "CODE.CAR", "CODE.CDR", "CODE.CONS",
    "CODE.LIST", "CODE.LENGTH", "CODE.NTH", "CODE.NULL", "CODE.ATOM", "CODE.MEMBER", "CODE.CONTAINS", "CODE.=", "CODE.DISCREPANCY",
    "EXEC.=", "CODE.APPEND",
];

/// atoms with pairwise distinct printed forms; several contain one another as substrings
fn small_atom() -> BoxedStrategy<ItemSpec> {
    prop_oneof![
        4 => prop::sample::select(vec![1, 2, 12, -3, 21]).prop_map(ItemSpec::Int),
        2 => prop::sample::select(vec![1.5f32, 2.25, 12.5]).prop_map(ItemSpec::Float),
        2 => any::<bool>().prop_map(ItemSpec::Bool),
        4 => prop::sample::select(vec!["a", "ab", "b", "x", "xa"]).prop_map(|s| ItemSpec::Name(s.to_string())),
        3 => prop::sample::select(vec!["NOOP", "INTEGER.+", "CODE.DO", "INTEGER.+X"]).prop_map(|s| if s.ends_with('X') { ItemSpec::Name("INTEGER".into()) } else { ItemSpec::Instr(s.to_string()) }),
        1 => prop::sample::select(vec![vec![1, 2], vec![12]]).prop_map(ItemSpec::IVec),
    ]
    .boxed()
}
fn small_tree(depth: u32, size: u32) -> BoxedStrategy<ItemSpec> {
    small_atom()
        .prop_recursive(depth, size, 4, |inner| prop::collection::vec(inner, 0..=4).prop_map(ItemSpec::List))
        .boxed()
}

#[derive(Clone, Debug)]
pub struct Case {
    pub name: String,
    pub t: ItemSpec,
    pub u: ItemSpec,
    pub w: ItemSpec,
    pub idx: i32,
    pub rest: Vec<ItemSpec>,
    pub other: StateSpec,
}
impl Case {
    fn state(&self) -> StateSpec {
        let mut s = self.other.clone();
        let target = if self.name.starts_with("EXEC") { &mut s.exec } else { &mut s.code };
        let mut v = vec![self.t.clone(), self.u.clone(), self.w.clone()];
        v.extend(self.rest.iter().cloned());
        *target = v;
        s.ints.insert(0, self.idx);
        s
    }
    fn to_json(&self) -> Value {
        json!({"instruction": self.name, "state": self.state().to_json(), "brief": self.state().brief()})
    }
}

fn case_strategy(depth: u32, size: u32) -> BoxedStrategy<Case> {
    let mut p = gen::StateParams::full(vec!["NOOP".into()]);
    p.max_depth = 2;
    p.tree_depth = 1;
    p.tree_size = 3;
    p.graphs = false;
    p.io = false;
    (
        prop::sample::select(NAMES.to_vec()),
        small_tree(depth, size),
        small_tree(depth.min(2), 5),
        small_tree(depth.min(2), 5),
        any::<u16>(),
        any::<u16>(),
        0u8..10,
        gen::index_around(10),
        prop::collection::vec(small_tree(1, 3), 0..3),
        gen::state(&p),
    )
        .prop_map(|(name, t, u0, w0, pick_u, pick_w, mode, idx0, rest, other)| {
            // Instructions defined structurally (Item::equals) must tell apart floats that only
            // PRINT alike (1.5001 / 1.5004 both print 1.500); `=` and DISCREPANCY compare printed
            // forms by (pinned) design and keep the injective pool.
            let structural = matches!(name, "CODE.SUBST" | "CODE.POSITION" | "CODE.CONTAINER" | "CODE.CONTAINS" | "CODE.MEMBER");
            let near = |t: ItemSpec, salt: u16| -> ItemSpec {
                fn go(t: &ItemSpec, salt: u16, k: &mut u16) -> ItemSpec {
                    match t {
                        ItemSpec::List(v) => ItemSpec::List(v.iter().map(|x| go(x, salt, k)).collect()),
                        ItemSpec::Float(f) => {
                            *k = k.wrapping_add(1);
                            // every fifth float becomes a zero of either sign: numerically equal
                            // zeros are one and the same point for the structural instructions
                            match (salt.wrapping_add(*k)) % 10 {
                                8 => ItemSpec::Float(0.0),
                                9 => ItemSpec::Float(-0.0),
                                r => ItemSpec::Float(*f + 0.0001 * ((r % 4) as f32)),
                            }
                        }
                        x => x.clone(),
                    }
                }
                let mut k = 0u16;
                go(&t, salt, &mut k)
            };
            let (t, u0, w0) = if structural && mode % 2 == 1 { (near(t, pick_u), near(u0, pick_w), near(w0, pick_u ^ pick_w)) } else { (t, u0, w0) };
            // a tenth of the cases are built, not drawn (pick_w decides):
            //  - self-similar: pattern = C[w], target = C[C[w]] (or that wrapped once more): the
            //    result of the substitution equals the pattern although the target did not
            //  - deep twins: two chains nested 9..18 levels deep that are identical except (in two
            //    thirds of the cases) for the innermost atom; one is the pattern, the other sits in the target
            let ctx_of = |x: &ItemSpec, sibs: &ItemSpec, at: u16| -> ItemSpec {
                let mut v: Vec<ItemSpec> = match sibs {
                    ItemSpec::List(v) => v.iter().take(2).cloned().collect(),
                    a => vec![a.clone()],
                };
                let p = gen::pick_index(at, v.len() + 1);
                v.insert(p, x.clone());
                ItemSpec::List(v)
            };
            if pick_w % 10 == 0 {
                let w = w0.clone();
                let u = ctx_of(&w, &u0, pick_u);
                let mut t2 = ctx_of(&u, &u0, pick_u);
                if pick_w % 20 == 0 {
                    t2 = ItemSpec::List(vec![ItemSpec::Int(77), t2]);
                }
                let s = t2.points() as i32;
                let idx = if (idx0 as i64).abs() <= 22 { (idx0 as i64 * s as i64 / 5).clamp(-2 * s as i64, 2 * s as i64) as i32 } else { idx0 };
                return Case { name: name.to_string(), t: t2, u, w, idx, rest, other };
            }
            if pick_w % 10 == 1 {
                let depth = 9 + (pick_u % 10) as usize;
                let chain = |inner: ItemSpec| -> ItemSpec {
                    let mut x = inner;
                    for level in 0..depth {
                        x = if level % 3 == 1 { ItemSpec::List(vec![ItemSpec::Int(level as i32), x]) } else { ItemSpec::List(vec![x]) };
                    }
                    x
                };
                let a = ItemSpec::Int(5);
                let b = match (pick_u / 10) % 3 {
                    0 => ItemSpec::Int(5),
                    1 => ItemSpec::Int(6),
                    _ => ItemSpec::List(vec![ItemSpec::Int(5)]),
                };
                let u = chain(b);
                let t2 = match (pick_u / 30) % 3 {
                    0 => chain(a),
                    1 => ItemSpec::List(vec![ItemSpec::name("a"), chain(a), ItemSpec::Int(1)]),
                    _ => ItemSpec::List(vec![chain(a), u0.clone()]),
                };
                let s = t2.points() as i32;
                let idx = if (idx0 as i64).abs() <= 22 { (idx0 as i64 * s as i64 / 5).clamp(-2 * s as i64, 2 * s as i64) as i32 } else { idx0 };
                return Case { name: name.to_string(), t: t2, u, w: w0, idx, rest, other };
            }
            let pre: Vec<ItemSpec> = t.preorder().into_iter().cloned().collect();
            let s = pre.len() as i32;
            // pattern present (a sub-item of t) in ~60 % of the cases, fresh otherwise
            let u = if mode < 6 { pre[gen::pick_index(pick_u, pre.len())].clone() } else { u0 };
            let w = if mode % 3 == 0 { pre[gen::pick_index(pick_w, pre.len())].clone() } else { w0 };
            // index: relative to the number of points in [-2S, 2S], or extreme
            let idx = if (idx0 as i64).abs() <= 22 { (idx0 as i64 * s as i64 / 5).clamp(-2 * s as i64, 2 * s as i64) as i32 } else { idx0 };
            Case { name: name.to_string(), t, u, w, idx, rest, other }
        })
        .boxed()
}

fn atom_set(items: &[ItemSpec]) -> std::collections::BTreeSet<String> {
    items.iter().flat_map(|x| x.atoms().into_iter().map(|a| a.render()).collect::<Vec<_>>()).collect()
}
fn atom_multiset(items: &[&ItemSpec]) -> Vec<String> {
    let mut v: Vec<String> = items.iter().flat_map(|x| x.atoms().into_iter().map(|a| a.render()).collect::<Vec<_>>()).collect();
    v.sort();
    v
}

fn run_real(name: &str, s: &StateSpec) -> Result<StateSpec, Fail> {
    step_named_on(s, name).map_err(|(loc, msg)| Fail::new(format!("C08/{}/panic@{}", name, loc), format!("{} panicked at {}: {} | state: {}", name, loc, msg, s.brief())))
}

fn judge(c: &Case) -> CaseResult {
    let s = c.state();
    let name = c.name.as_str();
    let j = judge_instr("C08", name, &s, false)?;
    let after = &j.after;
    // INV: no atom is invented on the CODE stack
    if name.starts_with("CODE") {
        let before_atoms = atom_set(&s.code);
        let after_atoms = atom_set(&after.code);
        if let Some(x) = after_atoms.iter().find(|a| !before_atoms.contains(*a)) {
            return Err(Fail::new(format!("C08/{}/atom-invented", name), format!("{} produced atom {} that is in none of its operands | state: {}", name, x, s.brief())));
        }
    }
    if name == "CODE.APPEND" && s.code.len() >= 2 {
        // conservation only: the result contains exactly the atoms of both operands
        if after.code.len() != s.code.len() - 1 {
            return Err(Fail::new("C08/CODE.APPEND/shape", format!("CODE depth {} -> {}", s.code.len(), after.code.len())));
        }
        let want = atom_multiset(&[&s.code[0], &s.code[1]]);
        let got = atom_multiset(&[&after.code[0]]);
        if want != got {
            return Err(Fail::new("C08/CODE.APPEND/atoms", format!("operands' atoms {:?}, result's atoms {:?}", want, got)));
        }
    }
    // META relations through the real instructions only
    let pts = c.t.points() as i32;
    match name {
        "CODE.INSERT" => {
            if c.idx > 0 && c.idx < pts {
                // a following EXTRACT at the same index yields the inserted item
                let mut s2 = after.clone();
                s2.ints.insert(0, c.idx);
                let a2 = run_real("CODE.EXTRACT", &s2)?;
                if a2.code.first() != Some(&c.u) {
                    return Err(Fail::new(
                        "C08/CODE.INSERT/extract-after-insert",
                        format!("INSERT {} of {} into {} then EXTRACT {} gives {:?}", c.idx, c.u.render(), c.t.render(), c.idx, a2.code.first().map(|x| x.render())),
                    ));
                }
            }
        }
        "CODE.POSITION" => {
            if let Some(p) = after.ints.first() {
                if *p >= 0 {
                    let mut s2 = after.clone();
                    let a2 = run_real("CODE.EXTRACT", &s2.clone())?;
                    let _ = &mut s2;
                    if a2.code.first() != Some(&c.u) {
                        return Err(Fail::new(
                            "C08/CODE.POSITION/extract-at-position",
                            format!("POSITION of {} in {} = {} but EXTRACT there gives {:?}", c.u.render(), c.t.render(), p, a2.code.first().map(|x| x.render())),
                        ));
                    }
                } else if occurs(&c.t, &c.u) {
                    return Err(Fail::new("C08/CODE.POSITION/minus-one-but-occurs", format!("{} occurs in {}", c.u.render(), c.t.render())));
                }
            }
        }
        "CODE.DISCREPANCY" => {
            // symmetric; zero iff equal
            let mut sw = s.clone();
            sw.code.swap(0, 1);
            let a2 = run_real("CODE.DISCREPANCY", &sw)?;
            let (d1, d2) = (after.ints.first().cloned(), a2.ints.first().cloned());
            if d1 != d2 {
                return Err(Fail::new("C08/CODE.DISCREPANCY/asymmetric", format!("d({}, {}) = {:?} but swapped = {:?}", c.t.render(), c.u.render(), d1, d2)));
            }
            if let Some(d) = d1 {
                if (d == 0) != (c.t == c.u) || d < 0 {
                    return Err(Fail::new("C08/CODE.DISCREPANCY/zero-iff-equal", format!("d({}, {}) = {}", c.t.render(), c.u.render(), d)));
                }
            }
        }
        _ => {}
    }
    let mut h = Fnv::new();
    h.str(name);
    h.u64(s.digest());
    let nested_before = match &c.t {
        ItemSpec::List(v) => v.iter().take(v.len().saturating_sub(1)).any(|x| x.is_list()),
        _ => false,
    };
    let mut out = CaseOut::new(j.compared && c.t.points() >= 3, h.0).class(name.to_string());
    if nested_before {
        out = out.class("nested-list-before-later-point");
    }
    if occurs(&c.t, &c.u) {
        out = out.class("pattern-present");
    }
    if j.unspecified.is_some() {
        out = out.class("unspecified-corner");
    }
    Ok(out)
}

/// Direct calls of the Item API against the tree algebra.
fn judge_api(c: &Case) -> CaseResult {
    let (t, u, w) = (&c.t, &c.u, &c.w);
    let it = t.to_item();
    let iu = u.to_item();
    let iw = w.to_item();
    let pre: Vec<ItemSpec> = t.preorder().into_iter().cloned().collect();
    let fail = |what: &str, detail: String| Err(Fail::new(format!("C08/api/{}", what), format!("{} | t = {} u = {} w = {}", detail, t.render(), u.render(), w.render())));
    let r = guarded(|| -> Result<(), Fail> {
        if Item::size(&it) != pre.len() {
            return fail("size", format!("Item::size = {} but points = {}", Item::size(&it), pre.len()));
        }
        for i in 0..pre.len() + 2 {
            match Item::traverse(&it, i) {
                Ok(x) => {
                    if i >= pre.len() || ItemSpec::from_item(&x) != pre[i] {
                        return fail("traverse", format!("traverse({}) = {}", i, ItemSpec::from_item(&x).render()));
                    }
                }
                Err(_) => {
                    if i < pre.len() {
                        return fail("traverse", format!("traverse({}) = Err but the item has {} points", i, pre.len()));
                    }
                }
            }
        }
        if Item::equals(&it, &iu) != (t == u) {
            return fail("equals", format!("Item::equals = {}", Item::equals(&it, &iu)));
        }
        match Item::contains(&it, &iu, 0) {
            Ok(p) => {
                if p >= pre.len() || pre[p] != *u {
                    return fail("contains", format!("contains = Ok({}) but the point there is {:?}", p, pre.get(p).map(|x| x.render())));
                }
            }
            Err(()) => {
                if occurs(t, u) {
                    return fail("contains", "contains = Err although the pattern occurs".into());
                }
            }
        }
        let want = container(t, u);
        match Item::container(&it, &iu) {
            Ok(x) => {
                if Some(ItemSpec::from_item(&x)) != want {
                    return fail("container", format!("container = {} expected {:?}", ItemSpec::from_item(&x).render(), want.as_ref().map(|x| x.render())));
                }
            }
            Err(_) => {
                if want.is_some() {
                    return fail("container", format!("container = Err expected {:?}", want.map(|x| x.render())));
                }
            }
        }
        // substitute(item, pattern, substitute): true => the whole item equals the pattern
        let mut target = it.clone();
        let whole = Item::substitute(&mut target, &iu, &iw);
        if whole != (t == u) {
            return fail("substitute", format!("substitute returned {}", whole));
        }
        if !whole {
            let want = subst(t, u, w);
            if ItemSpec::from_item(&target) != want {
                return fail("substitute", format!("substitute gave {} expected {}", ItemSpec::from_item(&target).render(), want.render()));
            }
        }
        // insert at a valid inner index
        let pts = pre.len();
        if pts > 1 {
            let i = 1 + (c.idx.unsigned_abs() as usize) % (pts - 1);
            let mut target = it.clone();
            let _ = Item::insert(&mut target, &iu, i);
            let want = replace_at(t, i, u);
            if ItemSpec::from_item(&target) != want {
                return fail("insert", format!("insert at {} gave {} expected {}", i, ItemSpec::from_item(&target).render(), want.render()));
            }
        }
        Ok(())
    });
    match r {
        Ok(Ok(())) => {}
        Ok(Err(f)) => return Err(f),
        Err((loc, msg)) => return Err(Fail::new(format!("C08/api/panic@{}", loc), format!("{} | t = {} u = {}", msg, t.render(), u.render()))),
    }
    let mut h = Fnv::new();
    t.hash_into(&mut h);
    u.hash_into(&mut h);
    w.hash_into(&mut h);
    Ok(CaseOut::new(t.points() >= 3 && t.depth() >= 2, h.0).class(if occurs(t, u) { "pattern-present" } else { "pattern-absent" }))
}

pub fn run(ctx: &Ctx) -> PropReport {
    let mut rep = PropReport::new(
        "code trees t (depth <= 4/6, <= 14/40 points, every atom kind with pairwise distinct printed forms, some printed forms substrings of others), patterns u, w (sub-items of t in ~60 %), indices in [-2S, 2S] and extreme; every listed CODE instruction by name with bystanders, and the Item API directly; non-trivial = value compared and t has >= 3 points (API: depth >= 2); distinct = (instruction, state) digest",
        "REF + META on ItemSpec trees: points, pre-order indexing, replace-subtree, structural occurrence/containment, container, subst, car/cdr/cons/list/length/nth/null/atom, = ; META through the real instructions: EXTRACT after INSERT returns the inserted item, EXTRACT at POSITION returns the pattern, DISCREPANCY symmetric and zero iff equal; INV: no atom invented, APPEND conserves the atom multiset.",
    );
    rep.assumptions.push("operand order follows the unit tests where they pin it (SUBST, CONTAINS, MEMBER, NTH modulo len+1); unspecified and not value-compared: EXTRACT outside [0,S) (either normalisation accepted), INSERT i <= 0, INSERT i >= S (no change or normalised), CAR of ( ), NTH with k = 0, CDR of an atom (only ( ) may be pushed)".into());
    let (d, sz) = ctx.tier.pick((4, 14), (6, 40));
    rep.push(run_sharded(ctx, "instructions", ctx.tier.pick(300_000, 3_000_000), move || case_strategy(d, sz), judge, |c| c.to_json()));
    rep.push(run_sharded(ctx, "item-api", ctx.tier.pick(100_000, 1_000_000), move || case_strategy(d, sz), judge_api, |c| {
        json!({"instruction": "api", "t": c.t.to_json(), "u": c.u.to_json(), "w": c.w.to_json(), "idx": c.idx, "text": format!("t={} u={} w={}", c.t.render(), c.u.render(), c.w.render())})
    }));
    for r in crate::props::incontext::run_all(ctx, ctx.tier.pick(40_000, 600_000)) {
        rep.push(r);
    }
    rep
}

pub fn replay(_ctx: &Ctx, sub: &str, case: &Value) -> Result<(), Fail> {
    let bad = || Fail::new("replay-format", "cannot decode C08 case");
    if sub == "item-api" {
        let g = |k: &str| case.get(k).and_then(ItemSpec::from_json).ok_or_else(bad);
        let c = Case { name: "api".into(), t: g("t")?, u: g("u")?, w: g("w")?, idx: case.get("idx").and_then(|x| x.as_i64()).unwrap_or(1) as i32, rest: vec![], other: StateSpec::default() };
        return judge_api(&c).map(|_| ());
    }
    let name = case.get("instruction").and_then(|x| x.as_str()).ok_or_else(bad)?.to_string();
    let mut s = StateSpec::from_json(case.get("state").ok_or_else(bad)?).ok_or_else(bad)?;
    let stack = if name.starts_with("EXEC") { s.exec.clone() } else { s.code.clone() };
    if stack.len() < 3 || s.ints.is_empty() {
        return Err(bad());
    }
    let idx = s.ints.remove(0);
    let c = Case { name, t: stack[0].clone(), u: stack[1].clone(), w: stack[2].clone(), idx, rest: stack[3..].to_vec(), other: {
        let mut o = s.clone();
        o.code = vec![];
        o.exec = vec![];
        o
    } };
    judge(&c).map(|_| ())
}
