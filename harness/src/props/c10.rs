//! C10 — missing arguments never fabricate results; instructions touch only their stacks.

use crate::engine::*;
use crate::envelope;
use crate::exec::step_named_on;
use crate::footprint::{self, Footprint};
use crate::gen;
use crate::refmodel::{get_stack, NINE};
use crate::single::*;
use crate::spec::*;
use proptest::prelude::*;
use serde_json::{json, Value};

const STACKLIKE: [&str; 13] = ["BOOLEAN", "INTEGER", "FLOAT", "NAME", "CODE", "EXEC", "BOOLVECTOR", "INTVECTOR", "FLOATVECTOR", "INDEX", "INPUT", "OUTPUT", "GRAPH"];

fn comp_len(s: &StateSpec, c: &str) -> usize {
    s.depth_of(c)
}
/// is `after`'s component a bottom part of `before`'s (only top items removed, nothing changed)?
fn is_bottom_part(before: &StateSpec, after: &StateSpec, c: &str) -> bool {
    macro_rules! chk {
        ($f:ident, $eq:expr) => {{
            let (b, a) = (&before.$f, &after.$f);
            a.len() <= b.len() && b[b.len() - a.len()..].iter().zip(a.iter()).all($eq)
        }};
    }
    match c {
        "BOOLEAN" => chk!(bools, |(x, y)| x == y),
        "INTEGER" => chk!(ints, |(x, y)| x == y),
        "FLOAT" => chk!(floats, |(x, y)| feq(*x, *y)),
        "NAME" => chk!(names, |(x, y)| x == y),
        "CODE" => chk!(code, |(x, y)| x == y),
        "EXEC" => chk!(exec, |(x, y)| x == y),
        "BOOLVECTOR" => chk!(bvecs, |(x, y)| x == y),
        "INTVECTOR" => chk!(ivecs, |(x, y)| x == y),
        "FLOATVECTOR" => chk!(fvecs, |(x, y)| fvec_eq(x, y)),
        "INDEX" => chk!(index, |(x, y)| x == y),
        "INPUT" => chk!(input, |(x, y)| x == y),
        "OUTPUT" => chk!(output, |(x, y)| x == y),
        "GRAPH" => chk!(graphs, |(x, y)| x == y),
        _ => true,
    }
}

fn side_components(fp: &Footprint) -> Vec<&'static str> {
    let mut v = vec![];
    for s in &fp.side {
        match s.as_str() {
            "BIND" => v.push("BINDINGS"),
            "QUOTE" => v.push("QUOTE"),
            "SEND" => v.push("SEND"),
            _ => {}
        }
    }
    v
}

/// Judge one case. `unfired` = an operand is missing or a documented guard fails.
fn judge(name: &str, before: &StateSpec, unfired: bool, why: &str) -> CaseResult {
    judge_live(name, before, unfired, why, None)
}

/// `live_pair`: (origin ordinal, destination ordinal) of the top graph whose REAL ids are put on
/// the INTEGER stack after building (second = origin, top = destination)
const UNKNOWN_ID: i32 = 2_000_000_000;

fn judge_live(name: &str, before: &StateSpec, unfired: bool, why: &str, live_pair: Option<(usize, usize)>) -> CaseResult {
    let fp = match footprint::get(name) {
        Some(f) => f,
        None => return judge_untabled(name, before),
    };
    let mut s = before.clone();
    envelope::clamp_sizes_spec(&mut s, name);
    crate::supervise::journal_instr("C10", name, &s);
    let after = match live_pair {
        None => step_named_on(&s, name),
        Some((o, d)) => {
            let (mut st, idmaps) = s.build();
            if let Some(ids) = idmaps.first() {
                // usize::MAX stands for an id that names no node
                let real = |k: usize| if k == usize::MAX { Some(UNKNOWN_ID) } else { ids.get(k).map(|x| *x as i32) };
                if let (Some(rd), Some(ro), true) = (real(d), real(o), st.int_stack.size() >= 2) {
                    *st.int_stack.get_mut(0).unwrap() = rd;
                    *st.int_stack.get_mut(1).unwrap() = ro;
                }
            }
            // the "before" picture in ordinal ids: ordinals stand for the live ids
            s.ints[0] = if d == usize::MAX { UNKNOWN_ID } else { d as i32 };
            s.ints[1] = if o == usize::MAX { UNKNOWN_ID } else { o as i32 };
            let r = guarded(|| crate::exec::with_machine(|m| m.step_named(&mut st, name)));
            r.map(|_| {
                let mut snap = StateSpec::snapshot(&st);
                // rename the live ids left on the INTEGER stack back to ordinals for the comparison
                if let Some(ids) = idmaps.first() {
                    for v in snap.ints.iter_mut() {
                        if let Some(p) = ids.iter().position(|x| *x as i32 == *v) {
                            *v = p as i32;
                        }
                    }
                }
                snap
            })
        }
    }
    .map_err(|(loc, msg)| Fail::new(format!("C10/{}/panic@{}", name, loc), format!("{} panicked at {}: {} | {}", name, loc, msg, s.brief())))?
    .canonical();
    let before_c = s.clone();
    let mut h = Fnv::new();
    h.str(name);
    h.str(why);
    h.u64(s.digest());
    if unfired {
        // documented exception: INTVECTOR.SET*INSERT creates an empty vector when none exists
        let set_insert_exception = name == "INTVECTOR.SET*INSERT" && before_c.ivecs.is_empty() && after.ivecs == vec![Vec::<i32>::new()];
        for c in STACKLIKE.iter() {
            if set_insert_exception && *c == "INTVECTOR" {
                continue;
            }
            if !is_bottom_part(&before_c, &after, c) {
                return Err(Fail::new(
                    format!("C10/{}/fabricated-or-changed/{}", name, c),
                    format!("{} ({}): {} was {} and became {} | {}", name, why, c, before_c.component_text(c), after.component_text(c), before_c.brief()),
                ));
            }
            if comp_len(&after, c) < comp_len(&before_c, c) && !fp.shrink.contains(c) {
                return Err(Fail::new(
                    format!("C10/{}/consumed-foreign-stack/{}", name, c),
                    format!("{} ({}): {} shrank from {} to {} items but is not an operand stack | {}", name, why, c, comp_len(&before_c, c), comp_len(&after, c), before_c.brief()),
                ));
            }
        }
        for c in ["BINDINGS", "QUOTE", "SEND", "CONFIG"] {
            if !before_c.component_eq(&after, c) {
                return Err(Fail::new(format!("C10/{}/fabricated-or-changed/{}", name, c), format!("{} ({}): {} changed: {} -> {}", name, why, c, before_c.component_text(c), after.component_text(c))));
            }
        }
    } else {
        let mut allowed: Vec<&str> = vec![];
        allowed.extend(fp.shrink.iter());
        allowed.extend(fp.write.iter());
        allowed.extend(side_components(&fp));
        for c in before_c.differing_components(&after) {
            if !allowed.contains(&c) {
                return Err(Fail::new(
                    format!("C10/{}/outside-footprint/{}", name, c),
                    format!("{}: {} changed ({} -> {}) but the documented footprint is pops {:?} writes {:?} side {:?} | {}", name, c, before_c.component_text(c), after.component_text(c), fp.shrink, fp.write, fp.side, before_c.brief()),
                ));
            }
        }
    }
    let bystanders = STACKLIKE.iter().filter(|c| !fp.shrink.contains(*c) && !fp.write.contains(*c) && comp_len(&before_c, c) > 0).count();
    Ok(CaseOut::new(unfired && bystanders >= 3, h.0).class(if unfired { "unfired" } else { "all-operands-present" }))
}

/// instructions present in the registry but absent from the table: table-free checks only
fn judge_untabled(name: &str, before: &StateSpec) -> CaseResult {
    let empty = StateSpec::default();
    let after = step_named_on(&empty, name).map_err(|(loc, msg)| Fail::new(format!("C10/{}/panic@{}", name, loc), msg))?;
    let _ = before;
    let mut h = Fnv::new();
    h.str(name);
    let _ = after;
    Ok(CaseOut::new(false, h.0).class("untabled"))
}

/// documented guards that fail although every operand is present
fn guard_cases(name: &str, s: &StateSpec) -> Vec<(StateSpec, &'static str)> {
    let mut out = vec![];
    let mut push = |f: &dyn Fn(&mut StateSpec), why: &'static str| {
        let mut c = s.clone();
        f(&mut c);
        out.push((c, why));
    };
    match name {
        "INTEGER./" | "INTEGER.%" => push(&|c| { if !c.ints.is_empty() { c.ints[0] = 0 } }, "zero divisor"),
        "FLOAT./" | "FLOAT.%" => {
            push(&|c| { if !c.floats.is_empty() { c.floats[0] = 0.0 } }, "zero divisor");
            push(&|c| { if !c.floats.is_empty() { c.floats[0] = -0.0 } }, "zero divisor");
        }
        "FLOATVECTOR./" => {
            push(&|c| { if c.fvecs.len() >= 2 && !c.ints.is_empty() { c.ints[0] = 0; c.fvecs[0] = vec![0.0, 1.0]; c.fvecs[1] = vec![2.0, 3.0, 4.0]; } }, "zero divisor in the overlap");
            // the zero divisor faces a zero dividend (0/0), the other positions are harmless
            push(&|c| { if c.fvecs.len() >= 2 && !c.ints.is_empty() { c.ints[0] = 0; c.fvecs[0] = vec![0.0, 2.0]; c.fvecs[1] = vec![0.0, 4.0, 1.0]; } }, "zero divisor facing a zero dividend");
            push(&|c| { if c.fvecs.len() >= 2 && !c.ints.is_empty() { c.ints[0] = 0; c.fvecs[0] = vec![2.0, -0.0]; c.fvecs[1] = vec![6.0, 0.0]; } }, "negative-zero divisor facing a zero dividend");
            push(&|c| { if c.fvecs.len() >= 2 && !c.ints.is_empty() { c.ints[0] = 0; c.fvecs[0] = vec![0.0]; c.fvecs[1] = vec![-0.0]; } }, "zero divisor facing a negative-zero dividend");
            for ofs in [0, 1] {
                push(&|c| { if c.fvecs.len() >= 2 && !c.ints.is_empty() { c.ints[0] = ofs; c.fvecs[0] = vec![0.0, 0.0]; c.fvecs[1] = vec![0.0, 0.0, 0.0]; } }, "all-zero divisor over an all-zero dividend");
            }
        }
        n if n.ends_with(".ONES") || n.ends_with(".ZEROS") => {
            push(&|c| { if !c.ints.is_empty() { c.ints[0] = -1 } }, "size < 0");
            push(&|c| { if !c.ints.is_empty() { c.ints[0] = i32::MIN } }, "size < 0");
        }
        // a failing distribution guard is crossed with every size class (0, 1, several): the
        // guard is documented independently of the size
        "BOOLVECTOR.RAND" => {
            push(&|c| { if !c.ints.is_empty() { c.ints[0] = -3 } }, "size < 0");
            for size in [0, 1, 4] {
                push(&|c| { if !c.ints.is_empty() && !c.floats.is_empty() { c.ints[0] = size; c.floats[0] = 1.5 } }, "sparsity > 1");
                push(&|c| { if !c.ints.is_empty() && !c.floats.is_empty() { c.ints[0] = size; c.floats[0] = -0.25 } }, "sparsity < 0");
                push(&|c| { if !c.ints.is_empty() && !c.floats.is_empty() { c.ints[0] = size; c.floats[0] = f32::NAN } }, "sparsity NaN");
            }
        }
        "INTVECTOR.RAND" => {
            for size in [0, 1, 3] {
                push(&|c| { if c.ints.len() >= 3 { c.ints[0] = size; c.ints[1] = 5; c.ints[2] = 5 } }, "max = min");
                push(&|c| { if c.ints.len() >= 3 { c.ints[0] = size; c.ints[1] = 2; c.ints[2] = 9 } }, "max < min");
            }
            push(&|c| { if c.ints.len() >= 3 { c.ints[0] = -1; c.ints[1] = 9; c.ints[2] = 2 } }, "size < 0");
        }
        "FLOATVECTOR.RAND" => {
            for size in [0, 1, 3] {
                push(&|c| { if !c.ints.is_empty() && c.floats.len() >= 2 { c.ints[0] = size; c.floats[0] = 0.0; c.floats[1] = -1.0 } }, "deviation < 0");
                push(&|c| { if !c.ints.is_empty() && c.floats.len() >= 2 { c.ints[0] = size; c.floats[0] = 0.0; c.floats[1] = f32::NAN } }, "deviation NaN");
                push(&|c| { if !c.ints.is_empty() && c.floats.len() >= 2 { c.ints[0] = size; c.floats[0] = 0.0; c.floats[1] = f32::INFINITY } }, "deviation infinite");
            }
            push(&|c| { if !c.ints.is_empty() && c.floats.len() >= 2 { c.ints[0] = -2; c.floats[0] = 0.0; c.floats[1] = 1.0 } }, "size < 0");
        }
        "INTEGER.RAND" => push(&|c| { c.config.min_random_integer = 5; c.config.max_random_integer = 5 }, "max <= min"),
        "FLOAT.RAND" => push(&|c| { c.config.min_random_float = 2.0; c.config.max_random_float = 1.0 }, "max <= min"),
        "CODE.RAND" => {
            push(&|c| { if !c.ints.is_empty() { c.ints[0] = 0 } }, "limit 0");
            push(&|c| { if !c.ints.is_empty() { c.ints[0] = 1 } }, "limit 1");
            push(&|c| { if !c.ints.is_empty() { c.ints[0] = 9; c.config.max_points_in_random_expressions = 0 } }, "max points 0");
        }
        "CODE.DEFINITION" => push(&|c| { if !c.names.is_empty() { c.names[0] = "certainly_unbound".into() } }, "unbound name"),
        "BOOLVECTOR.GET" | "BOOLVECTOR.SET" | "BOOLVECTOR.ROTATE" => push(&|c| { if !c.bvecs.is_empty() { c.bvecs[0] = vec![] } }, "empty vector"),
        "INTVECTOR.GET" | "INTVECTOR.SET" | "INTVECTOR.ROTATE" => push(&|c| { if !c.ivecs.is_empty() { c.ivecs[0] = vec![] } }, "empty vector"),
        "FLOATVECTOR.GET" | "FLOATVECTOR.SET" | "FLOATVECTOR.ROTATE" => push(&|c| { if !c.fvecs.is_empty() { c.fvecs[0] = vec![] } }, "empty vector"),
        "INPUT.GET" => push(&|c| { if !c.input.is_empty() { c.input[0].body = vec![] } }, "empty body"),
        "EXEC.CMD" => push(&|c| { if !c.ints.is_empty() { c.ints[0] = -1 } }, "negative argument count"),
        "LIST.NEIGHBOR*IDS" => {
            push(&|c| { if !c.ints.is_empty() { c.ints[0] = 0 } }, "size 0");
            push(&|c| { if c.ints.len() >= 3 { c.ints[0] = 9; c.ints[2] = 0 } }, "dimensions 0");
        }
        "LIST.NEIGHBOR*BVALS" | "LIST.NEIGHBOR*IVALS" | "LIST.NEIGHBOR*FVALS" => {
            push(&|c| { if c.ints.len() >= 2 { c.ints[1] = 0 } }, "size 0");
            push(&|c| { if c.ints.len() >= 4 { c.ints[1] = 9; c.ints[3] = -4 } }, "dimensions < 1");
        }
        n if n.starts_with("GRAPH.NODE*") || n.starts_with("GRAPH.EDGE*") => {
            // unknown / stale / non-positive ids: every INTEGER operand replaced
            // the three neighbourhood queries answer an unknown positive id with an empty vector
            // (a legitimate "no such neighbours"); only their documented guard id > 0 is drawn
            let query = n.ends_with("NEIGHBORS") || n.ends_with("PREDECESSORS") || n.ends_with("SUCCESSORS");
            for (v, why) in [(0, "id 0"), (-7, "negative id"), (2_000_000_000, "unknown id")] {
                if query && v > 0 {
                    continue;
                }
                let mut c = s.clone();
                let n_ints = c.ints.len().min(3);
                if n.ends_with("HISTORY") {
                    // keep a valid position on top, replace the ids below
                    if n_ints >= 1 {
                        c.ints[0] = 0;
                        for i in 1..n_ints {
                            c.ints[i] = v;
                        }
                        out.push((c, why));
                    }
                } else if n == "GRAPH.NODE*ADD" || n == "GRAPH.NODE*STATESWITCH" {
                    // no id operand on the INTEGER stack
                } else if n == "GRAPH.NODE*SETSTATE" {
                    if n_ints >= 2 {
                        c.ints[1] = v;
                        out.push((c, why));
                    }
                } else {
                    for i in 0..n_ints.min(2) {
                        c.ints[i] = v;
                    }
                    if n_ints >= 1 {
                        out.push((c, why));
                    }
                }
            }
        }
        _ => {}
    }
    out
}

fn truncate(s: &mut StateSpec, c: &str, d: usize) {
    match c {
        "BOOLEAN" => s.bools.truncate(d),
        "INTEGER" => s.ints.truncate(d),
        "FLOAT" => s.floats.truncate(d),
        "NAME" => s.names.truncate(d),
        "CODE" => s.code.truncate(d),
        "EXEC" => s.exec.truncate(d),
        "BOOLVECTOR" => s.bvecs.truncate(d),
        "INTVECTOR" => s.ivecs.truncate(d),
        "FLOATVECTOR" => s.fvecs.truncate(d),
        "INDEX" => s.index.truncate(d),
        "INPUT" => s.input.truncate(d),
        "OUTPUT" => s.output.truncate(d),
        "GRAPH" => s.graphs.truncate(d),
        _ => {}
    }
}

/// all shortage patterns of an instruction: assignments of a depth < need to a non-empty
/// subset of its operand stacks
fn shortage_patterns(fp: &Footprint) -> Vec<Vec<(&'static str, usize)>> {
    let mut out: Vec<Vec<(&'static str, usize)>> = vec![];
    let n = fp.need.len();
    for mask in 1u32..(1 << n) {
        // depth choices for the selected stacks
        let sel: Vec<(&'static str, usize)> = (0..n).filter(|i| mask & (1 << i) != 0).map(|i| fp.need[i]).collect();
        let mut idx = vec![0usize; sel.len()];
        loop {
            out.push(sel.iter().zip(idx.iter()).map(|((c, _), d)| (*c, *d)).collect());
            let mut k = 0;
            loop {
                if k == sel.len() {
                    break;
                }
                idx[k] += 1;
                if idx[k] < sel[k].1 {
                    break;
                }
                idx[k] = 0;
                k += 1;
            }
            if k == sel.len() {
                break;
            }
            if out.len() > 64 {
                break;
            }
        }
    }
    out
}

fn params() -> gen::StateParams {
    let mut p = gen::StateParams::full(vec!["NOOP".into(), "INTEGER.+".into(), "CODE.DUP".into()]);
    p.max_depth = 4;
    p.tree_depth = 2;
    p.tree_size = 6;
    p
}
/// every component non-empty (bystanders are never empty)
fn full_state() -> BoxedStrategy<(StateSpec, Supply)> {
    let p = params();
    (gen::state(&p), supply(&p.kinds), gen::graph_spec(3), gen::msg(), gen::msg())
        .prop_map(|(mut s, sup, g, m1, m2)| {
            let all = Footprint {
                name: String::new(),
                need: STACKLIKE.iter().map(|c| (*c, 2usize)).collect(),
                shrink: vec![],
                write: vec![],
                side: vec![],
                size_at: None,
                owner: String::new(),
                note: String::new(),
            };
            top_up(&mut s, &all, &sup);
            if s.graphs.iter().all(|g| g.nodes.is_empty()) {
                s.graphs[0] = g;
            }
            s.input[0] = m1;
            s.output[0] = m2;
            if s.bindings.is_empty() {
                s.bindings.insert("zeta".into(), ItemSpec::Int(3));
            }
            (s, sup)
        })
        .boxed()
}

pub fn run(ctx: &Ctx) -> PropReport {
    let names = crate::exec::registry_names();
    let table = footprint::table();
    let untabled: Vec<String> = names.iter().filter(|n| !table.contains_key(*n)).cloned().collect();
    let missing: Vec<String> = table.keys().filter(|n| !names.contains(n)).cloned().collect();
    let mut rep = PropReport::new(
        "every registered instruction x every shortage pattern (each non-empty subset of its operand stacks at each depth 0..need-1, enumerated) and the all-present case x documented guards that fail (zero divisor, size < 0, max <= min, invalid sparsity/deviation, unknown/stale node id, unbound name, empty vector/body) x random contents on ALL stacks, queues, graphs, bindings (every component non-empty); non-trivial = operand missing or guard failing with >= 3 non-empty bystander stacks; distinct = (instruction, pattern, state) digest",
        "INV from the documented footprint table over the full before/after snapshot. Unfired (operand missing / guard fails): every stack is a bottom part of its former self, only documented operand stacks may have shrunk, bindings / flags / configuration identical. Fired: every changed component lies in the instruction's documented pops / writes / side effects.",
    );
    rep.assumptions.push("footprint table design/footprint.tsv compiled from the doc comments; which of its own operands an unfired instruction consumes is unspecified; documented exception: INTVECTOR.SET*INSERT creates an empty vector".into());
    rep.extra.insert("untabled_instructions".into(), json!(untabled));
    rep.extra.insert("tabled_but_not_registered".into(), json!(missing));
    let draws = ctx.tier.pick(150u64, 1500u64);
    // work items: (name, kind)
    let mut work: Vec<(String, Option<Vec<(&'static str, usize)>>)> = vec![];
    for n in &names {
        work.push((n.clone(), None));
        if let Some(fp) = table.get(n) {
            for p in shortage_patterns(fp) {
                work.push((n.clone(), Some(p)));
            }
        }
    }
    let total = work.len() as u64;
    let mut sub = par_map(ctx, "shortage-and-guards", total, |wi, rep| {
        let (name, pattern) = work[wi as usize].clone();
        let mut r = det_runner(derive_seed(ctx.seed, &["C10", &name], wi, 0));
        let strat = full_state();
        for d in 0..draws {
            let (mut s, sup) = draw(&strat, &mut r);
            if let Some(fp) = footprint::get(&name) {
                top_up(&mut s, &fp, &sup);
            }
            let mut cases: Vec<(StateSpec, bool, String)> = vec![];
            match &pattern {
                None => {
                    // all present + guard failures
                    for (gs, why) in guard_cases(&name, &s) {
                        cases.push((gs, true, format!("guard: {}", why)));
                    }
                    // documented guard "the edge exists": live node ids without an edge between them
                    if name == "GRAPH.EDGE*SETWEIGHT" || name == "GRAPH.EDGE*GETWEIGHT" {
                        if let Some(g) = s.graphs.first() {
                            let n = g.nodes.len();
                            let mut pair = None;
                            for o in 0..n {
                                for dd in 0..n {
                                    if pair.is_none() && !g.edges.iter().any(|e| e.0 == o && e.1 == dd) {
                                        pair = Some((o, dd));
                                    }
                                }
                            }
                            if let (Some(pp), true) = (pair, s.ints.len() >= 2) {
                                rep.evaluations += 1;
                                match judge_live(&name, &s, true, "guard: no edge between two live nodes", Some(pp)) {
                                    Ok(o) => rep.record_only(&o),
                                    Err(f) => rep.fail(ctx, f, json!({"instruction": name, "unfired": true, "why": "guard: no edge between two live nodes", "live_pair": [pp.0, pp.1], "state": s.to_json(), "brief": s.brief()})),
                                }
                            }
                        }
                    }
                    // one live id (of a node that already has edges) and one id that names no node:
                    // the guard "both nodes exist" fails whatever the live node's edge lists hold
                    if name == "GRAPH.EDGE*ADD" || name == "GRAPH.EDGE*SETWEIGHT" || name == "GRAPH.EDGE*GETWEIGHT" {
                        if let (Some(g), true) = (s.graphs.first(), s.ints.len() >= 2) {
                            let mut pairs: Vec<(usize, usize)> = vec![];
                            if let Some(e) = g.edges.first() {
                                // destination / origin of an existing edge, in both operand positions
                                pairs.extend([(usize::MAX, e.1), (e.1, usize::MAX), (usize::MAX, e.0), (e.0, usize::MAX)]);
                            } else if !g.nodes.is_empty() {
                                pairs.extend([(usize::MAX, 0), (0, usize::MAX)]);
                            }
                            for pp in pairs {
                                rep.evaluations += 1;
                                match judge_live(&name, &s, true, "guard: one live and one unknown node id", Some(pp)) {
                                    Ok(o) => rep.record_only(&o),
                                    Err(f) => rep.fail(ctx, f, json!({"instruction": name, "unfired": true, "why": "guard: one live and one unknown node id", "live_pair": [pp.0 as u64, pp.1 as u64], "state": s.to_json(), "brief": s.brief()})),
                                }
                            }
                        }
                    }
                    cases.push((s, false, "all present".into()));
                }
                Some(p) => {
                    for (c, depth) in p {
                        truncate(&mut s, c, *depth);
                    }
                    cases.push((s, true, format!("short: {:?}", p)));
                }
            }
            for (cs, unfired, why) in cases {
                rep.evaluations += 1;
                match judge(&name, &cs, unfired, &why) {
                    Ok(o) => {
                        rep.record_only(&o);
                        if d == 0 && wi % 211 == 0 {
                            rep.sample(json!({"instruction": name, "why": why, "brief": cs.brief()}));
                        }
                    }
                    Err(f) => rep.fail(ctx, f, json!({"instruction": name, "unfired": unfired, "why": why, "state": cs.to_json(), "brief": cs.brief()})),
                }
            }
        }
    });
    sub.exhaustive = true;
    sub.notes.push(format!("{} (instruction, shortage pattern) cells enumerated completely, {} random full states per cell", total, draws));
    rep.push(sub);
    let _ = (NINE, get_stack as fn(&StateSpec, &str) -> Vec<ItemSpec>);
    rep
}

pub fn replay(_ctx: &Ctx, _sub: &str, case: &Value) -> Result<(), Fail> {
    let bad = || Fail::new("replay-format", "cannot decode C10 case");
    let name = case.get("instruction").and_then(|x| x.as_str()).ok_or_else(bad)?;
    let s = StateSpec::from_json(case.get("state").ok_or_else(bad)?).ok_or_else(bad)?;
    let unfired = case.get("unfired").and_then(|x| x.as_bool()).unwrap_or(false);
    let why = case.get("why").and_then(|x| x.as_str()).unwrap_or("");
    let live = case.get("live_pair").and_then(|x| x.as_array()).and_then(|a| Some((a.get(0)?.as_u64()? as usize, a.get(1)?.as_u64()? as usize)));
    judge_live(name, &s, unfired, why, live).map(|_| ())
}
