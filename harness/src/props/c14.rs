//! C14 — execution is deterministic and interpreter instances are mutually isolated.

use crate::engine::*;
use crate::exec::{with_machine, Machine};
use crate::gen;
use crate::props::c01::step_program;
use crate::props::c02::rand_free_names;
use crate::spec::*;
use proptest::prelude::*;
use pushr::push::graph::Graph;
use pushr::push::instructions::InstructionSet;
use pushr::push::interpreter::PushInterpreter;
use pushr::push::item::Item;
use pushr::push::parser::PushParser;
use pushr::push::state::PushState;
use serde_json::{json, Value};
use std::collections::BTreeSet;
use std::sync::atomic::{AtomicUsize, Ordering};

/// Every job ends within <= 300 steps (milliseconds). The interpreter's own time limit is set
/// four orders of magnitude above that: a job that no longer ends by its step limit (because the
/// limit's bookkeeping is disturbed by other instances) then ends with TimeLimitExceeded and a
/// different final state instead of hanging the check.
const JOB_TIME_LIMIT_MS: u64 = 8_000;

fn job_strategy() -> BoxedStrategy<StateSpec> {
    let names = rand_free_names();
    let mut p = gen::StateParams::full(names.clone());
    p.max_depth = 3;
    p.tree_depth = 2;
    p.tree_size = 6;
    p.graphs = false; // node ids are process-wide by design
    let kinds = gen::AtomKinds::all(names);
    (gen::state(&p), gen::program(&kinds, 4, 30), prop::sample::select(vec![20i32, 100, 300]))
        .prop_map(|(mut s, prog, limit)| {
            s.exec = vec![prog];
            s.config.eval_push_limit = limit;
            s.config.eval_time_limit = JOB_TIME_LIMIT_MS;
            s
        })
        .boxed()
}

/// single-instruction jobs over SMALL operand domains (ints 0..64, a handful of floats, short
/// vectors): related parameter values recur across jobs, so any memoisation or scratch state that
/// survives between runs and is keyed incompletely makes some job depend on which job ran before
fn sweep_jobs(seed: u64, per_instr: u64) -> Vec<StateSpec> {
    use crate::single::{supply, top_up};
    let names = rand_free_names();
    let small_int = prop_oneof![8 => 0i32..=64, 1 => -3i32..0];
    let small_float = prop::sample::select(vec![0.0f32, 0.5, 1.0, 1.5, 2.0, 3.0, -1.0]);
    let kinds = gen::AtomKinds { instrs: vec!["NOOP".into()], float_strategy: Some(small_float.clone().boxed()), ..gen::AtomKinds::all(vec![]) };
    let sup = supply(&kinds);
    let strat = (
        prop::collection::vec(small_int.clone(), 4..7),
        prop::collection::vec(small_float, 2..4),
        prop::collection::vec(any::<bool>(), 1..3),
        prop::collection::vec(prop::collection::vec(small_int.clone(), 0..4), 1..3),
        prop::collection::vec(prop::collection::vec(any::<bool>(), 0..4), 1..3),
        prop::collection::vec(prop::collection::vec((0i32..8).prop_map(|x| x as f32 / 2.0), 0..4), 1..3),
        prop::collection::vec(prop::collection::vec(small_int.prop_map(ItemSpec::Int), 0..4).prop_map(ItemSpec::List), 1..4),
        sup,
    );
    let mut out = vec![];
    for (ni, name) in names.iter().enumerate() {
        let fp = crate::footprint::get(name);
        for k in 0..per_instr {
            let mut r = det_runner(derive_seed(seed, &["C14", "sweep", name], k, ni as u64));
            let (ints, floats, bools, ivecs, bvecs, fvecs, code, sup) = draw(&strat, &mut r);
            let mut s = StateSpec::default();
            s.ints = ints;
            s.floats = floats;
            s.bools = bools;
            s.ivecs = ivecs;
            s.bvecs = bvecs;
            s.fvecs = fvecs;
            s.code = code;
            s.names = vec!["a".into(), "b".into()];
            if let Some(fp) = &fp {
                top_up(&mut s, fp, &sup);
            }
            s.exec.insert(0, ItemSpec::Instr(name.clone()));
            s.exec.truncate(4);
            s.config.eval_push_limit = 30;
            s.config.eval_time_limit = JOB_TIME_LIMIT_MS;
            out.push(s);
        }
    }
    out
}

/// single-instruction jobs over the BOUNDARY pools (i32 bounds, non-finite floats): results that
/// depend on the build profile (overflow checks, debug assertions) live here. Size operands are
/// clamped so that the jobs stay inside the resource envelope.
fn boundary_jobs(seed: u64, per_instr: u64) -> Vec<StateSpec> {
    let names = rand_free_names();
    let mut p = gen::StateParams::full(vec!["NOOP".into()]);
    p.max_depth = 3;
    p.tree_depth = 2;
    p.tree_size = 5;
    p.graphs = false;
    let strat = crate::single::state_for_any(names, &p);
    let mut out = vec![];
    let total = per_instr * 270;
    for k in 0..total {
        let mut r = det_runner(derive_seed(seed, &["C14", "boundary"], k, 0));
        let (name, mut s) = draw(&strat, &mut r);
        crate::envelope::clamp_sizes_spec(&mut s, &name);
        if name == "INTVECTOR.FROMINT" || name == "INDEX.DEFINE" {
            // fine: bounded by the stack / no allocation
        }
        s.exec = vec![ItemSpec::Instr(name)];
        s.config.eval_push_limit = 30;
        s.config.eval_time_limit = JOB_TIME_LIMIT_MS;
        out.push(s);
    }
    out
}

/// Jobs that compare or print deeply nested code (structural comparison, containment, printing
/// recurse on the items): depths 50 .. 400 and back to 200, so that a job's result would show if
/// an earlier, deeper job left something behind on its thread.
fn nesting_jobs() -> Vec<StateSpec> {
    let chain = |d: usize, inner: i32| -> ItemSpec {
        let mut t = ItemSpec::List(vec![ItemSpec::Int(inner)]);
        for k in 0..d {
            t = if k % 4 == 1 { ItemSpec::List(vec![ItemSpec::Int(k as i32), t]) } else { ItemSpec::List(vec![t]) };
        }
        t
    };
    let mut out = vec![];
    for d in [50usize, 200, 300, 257, 400, 200, 100, 255] {
        for prog in ["CODE.CONTAINS", "CODE.MEMBER", "CODE.=", "CODE.POSITION", "CODE.DISCREPANCY", "CODE.SUBST", "CODE.CONTAINER"] {
            for same in [true, false] {
                let mut s = StateSpec::default();
                // run() copies the program onto CODE first, so the operands are quoted by the program
                let q = ItemSpec::instr("CODE.QUOTE");
                s.exec = vec![ItemSpec::List(vec![
                    q.clone(),
                    ItemSpec::List(vec![chain(d, 5), ItemSpec::Int(1)]),
                    q.clone(),
                    chain(d, if same { 5 } else { 6 }),
                    q,
                    chain(d, 5),
                    ItemSpec::instr(prog),
                ])];
                s.config.eval_push_limit = 30;
                s.config.eval_time_limit = JOB_TIME_LIMIT_MS;
                out.push(s);
            }
        }
    }
    out
}

/// Jobs on states with many bound names (40 .. 70): every DEFINE type adds a new name and an
/// existing one is redefined; the complete binding table is part of the final state.
fn binding_jobs() -> Vec<StateSpec> {
    let mut out = vec![];
    for n in [40usize, 47, 48, 49, 64, 70] {
        for (ty, val) in [
            ("INTEGER", ItemSpec::Int(7)),
            ("FLOAT", ItemSpec::Float(1.5)),
            ("BOOLEAN", ItemSpec::Bool(true)),
            ("CODE", ItemSpec::List(vec![ItemSpec::instr("CODE.QUOTE"), ItemSpec::List(vec![ItemSpec::Int(1)])])),
            ("EXEC", ItemSpec::instr("NOOP")),
            ("INTVECTOR", ItemSpec::IVec(vec![1, 2])),
            ("FLOATVECTOR", ItemSpec::FVec(vec![0.5])),
            ("BOOLVECTOR", ItemSpec::BVec(vec![true])),
        ] {
            let mut s = StateSpec::default();
            for i in 0..n {
                s.bindings.insert(format!("b{}", i), ItemSpec::Int(i as i32));
            }
            let def = ItemSpec::Instr(format!("{}.DEFINE", ty));
            // a new name, then a redefinition of an old one, then both are looked up
            let mut prog = vec![];
            for name in ["fresh", "b3"] {
                if ty == "EXEC" {
                    prog.extend(vec![ItemSpec::instr("NAME.QUOTE"), ItemSpec::name(name), def.clone(), val.clone()]);
                } else if ty == "CODE" {
                    prog.extend(vec![val.clone(), ItemSpec::instr("NAME.QUOTE"), ItemSpec::name(name), def.clone()]);
                } else {
                    prog.extend(vec![val.clone(), ItemSpec::instr("NAME.QUOTE"), ItemSpec::name(name), def.clone()]);
                }
            }
            prog.extend(vec![ItemSpec::name("fresh"), ItemSpec::name("b3"), ItemSpec::name("b0"), ItemSpec::name(&format!("b{}", n - 1))]);
            s.exec = vec![ItemSpec::List(prog)];
            s.config.eval_push_limit = 100;
            s.config.eval_time_limit = JOB_TIME_LIMIT_MS;
            out.push(s);
        }
    }
    out
}

/// deterministic job list; jobs whose monitored dry run leaves the resource envelope are dropped
fn jobs(seed: u64, n: u64) -> Vec<StateSpec> {
    let mut all = program_jobs(seed, n);
    all.extend(sweep_jobs(seed, (n / 40).max(8)));
    all.extend(boundary_jobs(seed, (n / 80).max(4)));
    all.extend(nesting_jobs());
    all.extend(binding_jobs());
    // dry-run filter for the sweep jobs as well (EXEC items may be code)
    all
}

fn program_jobs(seed: u64, n: u64) -> Vec<StateSpec> {
    let strat = job_strategy();
    let allowed: BTreeSet<String> = rand_free_names().into_iter().collect();
    let mut out = vec![];
    for i in 0..n {
        let mut r = det_runner(derive_seed(seed, &["C14", "jobs"], i, 0));
        let s = draw(&strat, &mut r);
        let det = s.exec.iter().chain(s.code.iter()).chain(s.bindings.values()).all(|t| t.preorder().iter().all(|x| match x {
            ItemSpec::Instr(n) => allowed.contains(n),
            _ => true,
        }));
        if !det {
            continue;
        }
        // dry run on the state run() will see (EXEC copied onto CODE)
        let mut d = s.clone();
        let mut code = d.exec.clone();
        code.extend(d.code.iter().cloned());
        d.code = code;
        crate::supervise::journal_program("C14", &d, 402, "step");
        let (mut st, _) = d.build();
        match with_machine(|m| step_program(&mut st, m, 402)) {
            Ok(stats) if !stats.left_envelope && !stats.clamped => out.push(s),
            _ => {}
        }
    }
    out
}

fn run_job(s: &StateSpec, m: &mut Machine) -> Result<(u64, usize), (String, String)> {
    crate::supervise::journal_program("C14", s, 0, "run");
    let (mut st, _) = s.build();
    guarded(|| PushInterpreter::run(&mut st, &mut m.iset)).map(|_| {
        let snap = StateSpec::snapshot(&st);
        (snap.digest(), snap.main_size())
    })
}
fn run_job_text(s: &StateSpec, m: &mut Machine) -> String {
    let direct = match run_job(s, m) {
        Ok((d, _)) => format!("{:016x}", d),
        Err((l, _)) => format!("panic@{}", l),
    };
    // the same program once more, this time entering through the parser (printed text -> parse)
    let text = s.exec.iter().map(|x| x.render()).collect::<Vec<_>>().join(" ");
    let mut base = s.clone();
    base.exec.clear();
    let (mut st, _) = base.build();
    let parsed = guarded(|| {
        PushParser::parse_program(&mut st, &m.iset, &text);
        let parsed_exec = StateSpec::snapshot(&st).exec;
        let mut h = Fnv::new();
        for it in &parsed_exec {
            it.hash_into(&mut h);
        }
        h.0
    });
    match parsed {
        Ok(d) => format!("{}+{:016x}", direct, d),
        Err((l, _)) => format!("{}+parse-panic@{}", direct, l),
    }
}

/// release-leg entry
pub fn leg(seed: u64, n: u64, reverse: bool) {
    let js = jobs(seed, n);
    let mut m = Machine::new(true);
    let mut lines = vec![String::new(); js.len()];
    let order: Vec<usize> = if reverse { (0..js.len()).rev().collect() } else { (0..js.len()).collect() };
    for i in order {
        lines[i] = format!("{} {:016x} {}", i, js[i].digest(), run_job_text(&js[i], &mut m));
    }
    for l in lines {
        crate::exec::say(&l);
    }
}

fn job_json(s: &StateSpec) -> Value {
    json!({"state": s.to_json(), "program": s.exec.iter().map(|x| x.render()).collect::<Vec<_>>().join(" ")})
}

fn in_process(ctx: &Ctx, js: &[StateSpec]) -> (SubReport, Vec<String>) {
    let mut rep = SubReport::new("alone-vs-after-others-vs-concurrent");
    // baseline: each job alone on a fresh machine
    let base: Vec<String> = js.iter().map(|j| run_job_text(j, &mut Machine::new(true))).collect();
    for (i, j) in js.iter().enumerate() {
        rep.evaluations += 1;
        if base[i].starts_with("panic") {
            rep.fail(ctx, Fail::new(format!("C14/run/{}", base[i]), "run panicked".to_string()), job_json(j));
        }
    }
    // (a) after k other jobs, in reverse order, on one long-lived machine; and repeated
    let mut m = Machine::new(true);
    for round in 0..2 {
        for i in (0..js.len()).rev() {
            rep.evaluations += 1;
            let d = run_job_text(&js[i], &mut m);
            if d != base[i] {
                rep.fail(ctx, Fail::new("C14/depends-on-what-ran-earlier", format!("job {} alone gives {} but {} after other jobs (round {})", i, base[i], d, round)), job_json(&js[i]));
            }
        }
    }
    // (b) concurrently on T threads, each with its own instruction set and states
    for threads in [2usize, 4, 8, 16] {
        // the coordinating thread only waits from here on: its last journal entry is not a running case
        crate::supervise::journal_clear();
        let active = AtomicUsize::new(0);
        let max_active = AtomicUsize::new(0);
        let barrier = std::sync::Barrier::new(threads);
        let mismatches = AtomicUsize::new(0);
        let results: Vec<Vec<(usize, String)>> = std::thread::scope(|sc| {
            let hs: Vec<_> = (0..threads)
                .map(|t| {
                    let (active, max_active, barrier, js, mismatches, base) = (&active, &max_active, &barrier, js, &mismatches, &base);
                    std::thread::Builder::new()
                        .stack_size(128 << 20)
                        .spawn_scoped(sc, move || {
                            let mut m = Machine::new(true);
                            barrier.wait();
                            let a = active.fetch_add(1, Ordering::SeqCst) + 1;
                            max_active.fetch_max(a, Ordering::SeqCst);
                            let mut out = vec![];
                            for k in 0..js.len() {
                                let i = (k * 7 + t * 13) % js.len();
                                if mismatches.load(Ordering::SeqCst) >= 5 {
                                    break; // enough evidence; do not sit out more time limits
                                }
                                let d = run_job_text(&js[i], &mut m);
                                if d != base[i] {
                                    mismatches.fetch_add(1, Ordering::SeqCst);
                                }
                                out.push((i, d));
                                // also interleave graph work on this thread (shared counter)
                                if k % 16 == 0 {
                                    let mut g = Graph::new();
                                    g.add_node(k as i32);
                                }
                            }
                            active.fetch_sub(1, Ordering::SeqCst);
                            // this thread is done: an old journal entry must not look like a stuck case
                            crate::supervise::journal_clear();
                            out
                        })
                        .unwrap()
                })
                .collect();
            hs.into_iter().map(|h| h.join().unwrap_or_default()).collect()
        });
        for (t, r) in results.iter().enumerate() {
            for (i, d) in r {
                rep.evaluations += 1;
                if *d != base[*i] {
                    rep.fail(ctx, Fail::new("C14/depends-on-concurrent-instances", format!("job {} alone gives {} but {} on thread {} of {}", i, base[*i], d, t, threads)), job_json(&js[*i]));
                }
            }
        }
        *rep.classes.entry(format!("threads={} max-simultaneously-active={}", threads, max_active.load(Ordering::SeqCst))).or_insert(0) += 1;
    }
    for (i, j) in js.iter().enumerate() {
        if let Ok((_, _)) = run_job(j, &mut Machine::new(true)) {
            if j.exec.iter().map(|x| x.points()).sum::<usize>() >= 10 {
                rep.nontrivial.insert(j.digest() ^ i as u64);
            }
        }
        if i < 2 {
            rep.sample(job_json(j));
        }
    }
    (rep, base)
}

/// the job list executed by another process: the release binary (build profile) or this binary
/// in a fresh process in reverse order (independence of what ran earlier in the process)
fn other_process(ctx: &Ctx, js: &[StateSpec], base: &[String], n: u64, release: bool) -> SubReport {
    let mut rep = SubReport::new(if release { "profile-diff" } else { "fresh-process-reverse-order" });
    let sig = if release { "C14/build-profile" } else { "C14/depends-on-process-history" };
    let bin = if release {
        match std::env::var("PV_RELEASE_BIN") {
            Ok(b) if std::path::Path::new(&b).exists() => b,
            _ => {
                rep.inconclusive.push("release binary not available (PV_RELEASE_BIN)".into());
                return rep;
            }
        }
    } else {
        std::env::current_exe().map(|p| p.to_string_lossy().to_string()).unwrap_or_default()
    };
    let mut args = vec!["C14".to_string(), "--leg".to_string(), ctx.seed.to_string(), n.to_string()];
    if !release {
        args.push("reverse".into());
    }
    let out = std::process::Command::new(&bin).args(&args).env("PV_CHILD", "1").output();
    let text = match out {
        Ok(o) if o.status.success() => String::from_utf8_lossy(&o.stdout).to_string(),
        _ => {
            rep.inconclusive.push("release leg failed to run".into());
            return rep;
        }
    };
    let lines: Vec<Vec<String>> = text.lines().map(|l| l.split_whitespace().map(|x| x.to_string()).collect()).collect();
    if lines.len() != js.len() {
        // the job filter (dry run) itself must not depend on the profile
        rep.fail(ctx, Fail::new(format!("{}/job-filter-differs", sig), format!("this process keeps {} jobs, the other {}", js.len(), lines.len())), json!({"seed": ctx.seed, "n": n}));
        return rep;
    }
    for (i, j) in js.iter().enumerate() {
        rep.evaluations += 1;
        let l = &lines[i];
        if l.len() != 3 || l[1] != format!("{:016x}", j.digest()) {
            rep.inconclusive.push(format!("job {} differs between the legs' generators", i));
            return rep;
        }
        if l[2] != base[i] {
            rep.fail(ctx, Fail::new(sig, format!("job {}: this process (dev build, forward order) gives {} but the other process ({}) gives {}", i, base[i], if release { "release build" } else { "fresh process, reverse order" }, l[2])), job_json(j));
        } else {
            rep.nontrivial.insert(j.digest());
        }
    }
    rep.sample(json!({"jobs_compared": js.len()}));
    rep
}

/// the library side of the command-line front end
fn library_final_stacks(text: &str, bin: &str, max_steps: usize) -> Option<(String, String, String)> {
    let mut st = PushState::new();
    let mut iset = InstructionSet::new();
    iset.load();
    let cache = iset.cache();
    PushParser::parse_program(&mut st, &iset, text);
    // the library's own route onto the CODE stack (what PushInterpreter::run does first)
    PushInterpreter::copy_to_code_stack(&mut st);
    st.name_bindings.insert("BIN".to_string(), Item::id(bin.to_string()));
    for _ in 0..max_steps {
        if crate::envelope::outside(&st) || crate::envelope::clamp_sizes(&mut st) {
            return None;
        }
        if PushInterpreter::step(&mut st, &mut iset, &cache) {
            return Some((st.exec_stack.to_string(), st.code_stack.to_string(), st.int_stack.to_string()));
        }
    }
    None
}

fn cli(ctx: &Ctx, n: u64) -> SubReport {
    let mut rep = SubReport::new("command-line-front-end");
    let bin = match std::env::var("PV_PUSHR_CLI") {
        Ok(b) if std::path::Path::new(&b).exists() => b,
        _ => {
            rep.inconclusive.push("pushr CLI binary not available (PV_PUSHR_CLI)".into());
            return rep;
        }
    };
    // terminating programs without printing / spawning instructions
    let names: Vec<String> = rand_free_names().into_iter().filter(|n| n != "GRAPH.EDGE*HISTORY" && !n.starts_with("GRAPH.PRINT")).collect();
    let work: Vec<u64> = (0..n * 3).collect();
    let done = AtomicUsize::new(0);
    let r = par_map(ctx, "command-line-front-end", work.len() as u64, |i, rep| {
        if done.load(Ordering::SeqCst) >= n as usize {
            return;
        }
        let mut r = det_runner(derive_seed(ctx.seed, &["C14", "cli"], i, 0));
        let kinds = gen::AtomKinds { floats: true, ..gen::AtomKinds::all(names.clone()) };
        let strat = gen::program(&kinds, 3, 14);
        // small magnitudes only: the binary runs outside every resource envelope
        fn tame(t: &ItemSpec) -> ItemSpec {
            match t {
                ItemSpec::List(v) => ItemSpec::List(v.iter().map(tame).collect()),
                ItemSpec::Int(v) => ItemSpec::Int(v % 50),
                ItemSpec::IVec(v) => ItemSpec::IVec(v.iter().map(|x| x % 50).collect()),
                x => x.clone(),
            }
        }
        let prog = tame(&draw(&strat, &mut r));
        // every 25th program is a counted loop whose step count lies around 1000 (the front end
        // has no step budget of its own: it runs until EXEC is empty)
        let prog = if i % 25 == 7 {
            let n = [90, 250, 331, 332, 333, 334, 335, 400][(i / 25 % 8) as usize];
            ItemSpec::List(vec![ItemSpec::Int(n), ItemSpec::instr("INDEX.DEFINE"), ItemSpec::instr("EXEC.LOOP"), ItemSpec::List(vec![ItemSpec::Int(1), ItemSpec::instr("INTEGER.POP")]), ItemSpec::instr("INDEX.STACKDEPTH")])
        } else {
            prog
        };
        // every third program has several top-level items (the order of the copy onto CODE shows)
        let text = match (&prog, i % 3) {
            (ItemSpec::List(v), 0) if v.len() >= 2 => v.iter().map(|x| x.render()).collect::<Vec<_>>().join(" ") + " CODE.LENGTH CODE.DUP",
            _ => prog.render(),
        };
        crate::supervise::journal_value(&json!({"kind": "c14-cli", "program_text": text}));
        if text.contains('\0') {
            return;
        }
        let lib = match guarded(|| library_final_stacks(&text, &bin, if i % 25 == 7 { 5000 } else { 200 })) {
            Ok(Some(x)) => x,
            _ => return, // not terminating within 200 steps (or panics: C01's subject)
        };
        done.fetch_add(1, Ordering::SeqCst);
        rep.evaluations += 1;
        let out = std::process::Command::new(&bin).arg(&text).output();
        let out = match out {
            Ok(o) => o,
            Err(e) => {
                rep.inconclusive.push(format!("cannot spawn the CLI: {}", e));
                return;
            }
        };
        let case = json!({"program_text": text});
        if !out.status.success() {
            rep.fail(ctx, Fail::new("C14/cli/abnormal-exit", format!("status {:?} for {:?}", out.status, text)), case);
            return;
        }
        let so = String::from_utf8_lossy(&out.stdout).to_string();
        let (mut e, mut c, mut iv) = (None, None, None);
        for l in so.lines() {
            if let Some(x) = l.strip_prefix("> EXEC  : ") {
                e = Some(x.to_string());
            } else if l == "> EXEC  :" {
                e = Some(String::new());
            }
            if let Some(x) = l.strip_prefix("> CODE  : ") {
                c = Some(x.to_string());
            } else if l == "> CODE  :" {
                c = Some(String::new());
            }
            if let Some(x) = l.strip_prefix("> INT   : ") {
                iv = Some(x.to_string());
            } else if l == "> INT   :" {
                iv = Some(String::new());
            }
        }
        let got = (e.unwrap_or_else(|| "<none>".into()), c.unwrap_or_else(|| "<none>".into()), iv.unwrap_or_else(|| "<none>".into()));
        let norm = |s: &str| s.trim_end().to_string();
        if norm(&got.0) != norm(&lib.0) || norm(&got.1) != norm(&lib.1) || norm(&got.2) != norm(&lib.2) {
            rep.fail(
                ctx,
                Fail::new("C14/cli/final-stacks-differ", format!("program {:?}: CLI EXEC {:?} CODE {:?} INT {:?}; library EXEC {:?} CODE {:?} INT {:?}", text, got.0, got.1, got.2, lib.0, lib.1, lib.2)),
                case,
            );
        } else {
            if prog.points() >= 6 {
                rep.nontrivial.insert(hash_str(&text));
            }
            if i % 40 == 0 {
                rep.sample(json!({"program_text": text, "final_int_stack": lib.2}));
            }
        }
    });
    rep.merge(r);
    rep
}

fn node_ids(ctx: &Ctx, per_thread: usize) -> SubReport {
    let mut rep = SubReport::new("node-ids");
    // ids handed out earlier in this process
    let mut earlier = Graph::new();
    let before: Vec<usize> = (0..100).map(|i| earlier.add_node(i)).collect();
    let threads = 16;
    let barrier = std::sync::Barrier::new(threads);
    let all: Vec<Vec<usize>> = std::thread::scope(|sc| {
        let hs: Vec<_> = (0..threads)
            .map(|t| {
                let barrier = &barrier;
                sc.spawn(move || {
                    let mut ids = Vec::with_capacity(per_thread);
                    let mut g = Graph::new();
                    let mut m = Machine::new(true);
                    let mut st = PushState::new();
                    m.step_named(&mut st, "GRAPH.ADD");
                    barrier.wait();
                    for k in 0..per_thread {
                        if (k + t) % 2 == 0 {
                            ids.push(g.add_node(k as i32));
                        } else {
                            st.int_stack.push(1);
                            m.step_named(&mut st, "GRAPH.NODE*ADD");
                            if let Some(id) = st.int_stack.pop() {
                                ids.push(id as usize);
                            }
                        }
                        if k % 256 == 0 {
                            g = Graph::new();
                            st.graph_stack.flush();
                            m.step_named(&mut st, "GRAPH.ADD");
                        }
                    }
                    ids
                })
            })
            .collect();
        hs.into_iter().map(|h| h.join().unwrap_or_default()).collect()
    });
    let mut seen: BTreeSet<usize> = before.iter().cloned().collect();
    let mut total = 0u64;
    for (t, ids) in all.iter().enumerate() {
        for id in ids {
            total += 1;
            if !seen.insert(*id) {
                rep.fail(ctx, Fail::new("C14/node-id-handed-out-twice", format!("id {} was handed out twice (second time on thread {})", id, t)), json!({"threads": threads, "per_thread": per_thread}));
                rep.evaluations = total;
                return rep;
            }
        }
    }
    rep.evaluations = total;
    rep.nontrivial_extra = total;
    if total != (threads * per_thread) as u64 {
        rep.fail(ctx, Fail::new("C14/node-id-missing", format!("{} ids collected, expected {}", total, threads * per_thread)), json!({}));
    }
    rep.sample(json!({"threads": threads, "ids_per_thread": per_thread, "distinct_ids": total}));
    rep
}

pub fn run(ctx: &Ctx) -> PropReport {
    let mut rep = PropReport::new(
        "jobs = (RAND-free program without GRAPH.NODE*ADD / EXEC.CMD over the rest of the registry, random initial state, eval_push_limit in {20,100,300}) that stay inside the C01 resource envelope; schedules = alone on a fresh instruction set, after all other jobs on a long-lived one (twice, reverse order), and on 2/4/8/16 threads concurrently in rotated orders; the same job list in the release build; terminating programs through the pushr command-line binary; 16 threads x N node creations (API and GRAPH.NODE*ADD); non-trivial = program with >= 10 points (jobs), >= 6 points (CLI); distinct = job / text digest",
        "DIFF on final-state digests: alone = after other jobs = repeated = concurrent on T threads = release build; CLI: the last EXEC / CODE / INT block printed by the binary equals the library's stacks for the same text with the same BIN binding; INV: all node ids pairwise distinct and distinct from ids handed out earlier.",
    );
    rep.assumptions.push("thread schedules are sampled by the OS, not enumerated: a defect that needs a rare interleaving can be missed (all interpreter state is owned by the PushState passed in; the only shared object is one atomic counter)".into());
    let n = ctx.tier.pick(1200u64, 8000u64);
    let js = jobs(ctx.seed, n);
    rep.extra.insert("jobs_generated".into(), json!(n));
    rep.extra.insert("jobs_inside_envelope".into(), json!(js.len()));
    let (a, base) = in_process(ctx, &js);
    rep.push(a);
    rep.push(other_process(ctx, &js, &base, n, true));
    rep.push(other_process(ctx, &js, &base, n, false));
    rep.push(cli(ctx, ctx.tier.pick(250, 2500)));
    rep.push(node_ids(ctx, ctx.tier.pick(20_000, 200_000)));
    rep
}

pub fn replay(_ctx: &Ctx, sub: &str, case: &Value) -> Result<(), Fail> {
    let bad = || Fail::new("replay-format", "cannot decode C14 case");
    if sub == "command-line-front-end" {
        let text = case.get("program_text").and_then(|x| x.as_str()).ok_or_else(bad)?;
        let bin = std::env::var("PV_PUSHR_CLI").map_err(|_| Fail::new("replay-needs-cli", "PV_PUSHR_CLI not set"))?;
        let lib = library_final_stacks(text, &bin, 200).ok_or_else(|| Fail::new("C14/cli/library-does-not-terminate", text.to_string()))?;
        let out = std::process::Command::new(&bin).arg(text).output().map_err(|_| bad())?;
        let so = String::from_utf8_lossy(&out.stdout).to_string();
        let last_int = so.lines().filter(|l| l.starts_with("> INT   :")).last().unwrap_or("").trim_start_matches("> INT   :").trim().to_string();
        if last_int != lib.2.trim() {
            return Err(Fail::new("C14/cli/final-stacks-differ", format!("INT {:?} vs {:?}", last_int, lib.2)));
        }
        return Ok(());
    }
    if sub == "node-ids" {
        let r = node_ids(_ctx, 20_000);
        return match r.violations.first() {
            Some(v) => Err(Fail::new(v.signature.clone(), v.detail.clone())),
            None => Ok(()),
        };
    }
    let s = StateSpec::from_json(case.get("state").ok_or_else(bad)?).ok_or_else(bad)?;
    let a = run_job_text(&s, &mut Machine::new(true));
    let mut m = Machine::new(true);
    for _ in 0..5 {
        let b = run_job_text(&s, &mut m);
        if a != b {
            return Err(Fail::new("C14/depends-on-what-ran-earlier", format!("{} vs {}", a, b)));
        }
    }
    if a.starts_with("panic") {
        return Err(Fail::new(format!("C14/run/{}", a), "run panics"));
    }
    Ok(())
}
