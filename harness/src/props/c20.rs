//! C20 — neighbourhood computation on index topologies is geometrically sound.

use crate::engine::*;
use crate::gen;
use crate::refmodel2::{coords, edge_len, neighbours};
use crate::single::*;
use crate::spec::*;
use proptest::prelude::*;
use pushr::push::topology::Topology;
use serde_json::{json, Value};

fn radii() -> Vec<f32> {
    vec![0.0, 0.5, 1.0, 1.5f32.sqrt(), 2.5f32.sqrt(), 2.0, 4.5f32.sqrt(), 6.5f32.sqrt(), 3.0, 1e9]
}

fn check_one(ntotal: usize, ndim: usize) -> Result<u64, Fail> {
    let rs = radii();
    let mut evals = 0u64;
    let case = || format!("ntotal {} ndim {}", ntotal, ndim);
    // per radius: all neighbourhoods (for the symmetry relation)
    let mut prev: Vec<Vec<i32>> = vec![vec![]; ntotal];
    for (ri, r) in rs.iter().enumerate() {
        let mut all: Vec<Vec<i32>> = Vec::with_capacity(ntotal);
        for c in 0..ntotal {
            evals += 1;
            let got = guarded(|| Topology::find_neighbors(&ntotal, &ndim, &c, r)).map_err(|(l, m)| Fail::new(format!("C20/find_neighbors/panic@{}", l), format!("{} centre {} radius {}: {}", case(), c, r, m)))?;
            let got = match got {
                Some(v) => v.values,
                None => return Err(Fail::new("C20/find_neighbors/none-for-valid-arguments", format!("{} centre {} radius {}", case(), c, r))),
            };
            let want = neighbours(ntotal, ndim, c, *r as f64).ok_or_else(|| Fail::new("C20/reference-overflow", case()))?;
            // META first (independent of the brute-force reference)
            if !got.contains(&(c as i32)) {
                return Err(Fail::new("C20/centre-missing", format!("{} centre {} radius {}: {:?}", case(), c, r, got)));
            }
            if got.windows(2).any(|w| w[0] >= w[1]) || got.iter().any(|j| *j < 0 || *j as usize >= ntotal) {
                return Err(Fail::new("C20/not-ascending-valid-indices", format!("{} centre {} radius {}: {:?}", case(), c, r, got)));
            }
            if ri > 0 && !prev[c].iter().all(|j| got.contains(j)) {
                return Err(Fail::new("C20/not-monotone-in-radius", format!("{} centre {}: radius {} gives {:?} but the smaller radius {} gave {:?}", case(), c, r, got, rs[ri - 1], prev[c])));
            }
            if got != want {
                return Err(Fail::new(
                    "C20/neighbour-set",
                    format!("{} centre {} radius {}: got {:?} expected {:?} (edge length of the smallest enclosing hypercube: {:?})", case(), c, r, got, want, edge_len(ntotal, ndim)),
                ));
            }
            all.push(got);
        }
        for i in 0..ntotal {
            for j in &all[i] {
                if !all[*j as usize].contains(&(i as i32)) {
                    return Err(Fail::new("C20/not-symmetric", format!("{} radius {}: {} in N({}) but not vice versa", case(), r, j, i)));
                }
            }
        }
        prev = all;
    }
    Ok(evals)
}

fn grid(ctx: &Ctx) -> SubReport {
    let (nmax, dmax) = ctx.tier.pick((64usize, 4usize), (216, 5));
    let mut cells: Vec<(usize, usize)> = vec![];
    for n in 1..=nmax {
        for d in 1..=dmax {
            cells.push((n, d));
        }
    }
    // perfect powers up to 12^3 and 4^5 (and their neighbours), where the edge length is critical
    for e in 2..=12usize {
        for d in 2..=5u32 {
            if let Some(p) = e.checked_pow(d) {
                if p <= 1728 && (d <= 3 || e <= 4) {
                    for n in [p - 1, p, p + 1] {
                        if n > nmax && n <= ctx.tier.pick(512, 1729) {
                            cells.push((n, d as usize));
                        }
                    }
                }
            }
        }
    }
    cells.sort();
    cells.dedup();
    let mut rep = par_map(ctx, "exhaustive-grid", cells.len() as u64, |i, rep| {
        let (n, d) = cells[i as usize];
        crate::supervise::journal_value(&json!({"kind": "c20", "ntotal": n, "ndim": d}));
        match check_one(n, d) {
            Ok(e) => {
                rep.evaluations += e;
                if n >= 3 {
                    rep.nontrivial_extra += e;
                }
            }
            Err(f) => {
                rep.evaluations += 1;
                rep.fail(ctx, f, json!({"ntotal": n, "ndim": d}));
            }
        }
    });
    rep.exhaustive = true;
    rep.notes.push(format!("ntotal 1..{} x ndim 1..{} plus perfect powers (e^d - 1, e^d, e^d + 1), every centre index, radii {{0, 0.5, 1, sqrt1.5, sqrt2.5, 2, sqrt4.5, sqrt6.5, 3, 1e9}}: {} (ntotal, ndim) cells enumerated completely", nmax, dmax, cells.len()));
    rep.sample(json!({"ntotal": 27, "ndim": 3, "centre": 13, "radius": 1.0}));
    rep
}

fn decompose(ctx: &Ctx) -> SubReport {
    let mut cells = vec![];
    for e in 1..=64usize {
        for d in 1..=12u32 {
            if let Some(p) = e.checked_pow(d) {
                if p <= 4096 {
                    cells.push((e, d as usize, p));
                }
            }
        }
    }
    let mut rep = par_map(ctx, "decompose_index", cells.len() as u64, |i, rep| {
        let (e, d, p) = cells[i as usize];
        let mut seen = std::collections::BTreeSet::new();
        for idx in 0..p {
            rep.evaluations += 1;
            let got = match guarded(|| Topology::decompose_index(&idx, &e, &d)) {
                Ok(Some(v)) => v,
                Ok(None) => {
                    rep.fail(ctx, Fail::new("C20/decompose_index/none", format!("index {} edge {} dim {}", idx, e, d)), json!({"edge": e, "ndim": d, "index": idx}));
                    return;
                }
                Err((l, m)) => {
                    rep.fail(ctx, Fail::new(format!("C20/decompose_index/panic@{}", l), m), json!({"edge": e, "ndim": d, "index": idx}));
                    return;
                }
            };
            let horner = got.iter().rev().fold(0usize, |acc, c| acc * e + c);
            if got.len() != d || got.iter().any(|c| *c >= e) || horner != idx || Some(got.clone()) != coords(idx, e, d) || !seen.insert(got.clone()) {
                rep.fail(ctx, Fail::new("C20/decompose_index/not-a-bijection", format!("index {} edge {} dim {} -> {:?} (Horner gives {})", idx, e, d, got, horner)), json!({"edge": e, "ndim": d, "index": idx}));
                return;
            }
        }
        if p >= 4 {
            rep.nontrivial_extra += p as u64;
        }
    });
    rep.exhaustive = true;
    rep.notes.push(format!("every index of every (edge 1..64, dim 1..12) with edge^dim <= 4096: {} hypercubes", cells.len()));
    rep.sample(json!({"edge": 7, "ndim": 2, "index": 38, "coordinates": [3, 5]}));
    rep
}

/// arguments outside the geometric domain: no crash, None or a vector of valid indices
/// large topologies ("for every total size"): long 1-dimensional lines and big squares / cubes,
/// where coordinate differences reach 10^4 .. 10^6
fn large(ctx: &Ctx) -> SubReport {
    let mut work = vec![];
    for (n, d) in [(46_340usize, 1usize), (46_341, 1), (46_342, 1), (65_537, 1), (100_000, 1), (300_000, 1), (100_000, 2), (250_000, 2), (100_000, 3), (4_097, 12)] {
        for c in [0usize, 1, n / 2, n - 1] {
            for r in [0.0f32, 1.0, 1.5, 3.0, 1000.5, 46_341.5, 1e9] {
                work.push((n, d, c, r));
            }
        }
    }
    let mut rep = par_map(ctx, "large-topologies", work.len() as u64, |i, rep| {
        let (n, d, c, r) = work[i as usize];
        rep.evaluations += 1;
        let case = json!({"ntotal": n, "ndim": d, "centre": c as u64, "radius": fjson(r)});
        crate::supervise::journal_value(&json!({"kind": "c20", "ntotal": n, "ndim": d}));
        match guarded(|| Topology::find_neighbors(&n, &d, &c, &r)) {
            Err((l, m)) => rep.fail(ctx, Fail::new(format!("C20/find_neighbors/panic@{}", l), format!("ntotal {} ndim {} centre {} radius {}: {}", n, d, c, r, m)), case),
            Ok(got) => {
                let want = neighbours(n, d, c, r as f64);
                if got.as_ref().map(|v| &v.values) != want.as_ref() {
                    let (g, w) = (got.map(|v| v.values.len()), want.map(|v| v.len()));
                    rep.fail(ctx, Fail::new("C20/neighbour-set", format!("ntotal {} ndim {} centre {} radius {}: {:?} neighbours returned, the Euclidean ball holds {:?}", n, d, c, r, g, w)), case);
                } else {
                    rep.nontrivial.insert(i);
                    if i % 40 == 0 {
                        rep.sample(case);
                    }
                }
            }
        }
    });
    rep.exhaustive = true;
    rep.notes.push("10 large (ntotal, ndim) pairs x 4 centres x 7 radii compared with the brute-force Euclidean ball".into());
    rep
}

fn robustness(ctx: &Ctx) -> SubReport {
    let ns = [0usize, 1, 2, 5, 64];
    let ds = [0usize, 1, 2, 7, 20, 64, 1000];
    let rs = [-1.0f32, -0.0, f32::NAN, f32::INFINITY, f32::NEG_INFINITY, 0.0];
    let mut work = vec![];
    for n in ns {
        for d in ds {
            for r in rs {
                for c in [0usize, 1, n.saturating_sub(1), n, n + 1, usize::MAX] {
                    work.push((n, d, c, r));
                }
            }
        }
    }
    let mut rep = par_map(ctx, "out-of-domain-arguments", work.len() as u64, |i, rep| {
        let (n, d, c, r) = work[i as usize];
        rep.evaluations += 1;
        let case = json!({"ntotal": n, "ndim": d, "centre": c as u64, "radius": fjson(r)});
        crate::supervise::journal_value(&json!({"kind": "c20", "ntotal": n, "ndim": d}));
        match guarded(|| Topology::find_neighbors(&n, &d, &c, &r)) {
            Err((l, m)) => rep.fail(ctx, Fail::new(format!("C20/find_neighbors/panic@{}", l), format!("ntotal {} ndim {} centre {} radius {}: {}", n, d, c, r, m)), case),
            Ok(Some(v)) => {
                if v.values.iter().any(|j| *j < 0 || *j as usize >= n) {
                    rep.fail(ctx, Fail::new("C20/find_neighbors/invalid-index-returned", format!("{:?}", v.values)), case);
                } else {
                    rep.nontrivial.insert(i);
                }
            }
            Ok(None) => {
                rep.nontrivial.insert(i);
            }
        }
    });
    rep.sample(json!({"ntotal": 5, "ndim": 64, "centre": 5, "radius": "NaN"}));
    rep
}

const NB: [&str; 4] = ["LIST.NEIGHBOR*IDS", "LIST.NEIGHBOR*BVALS", "LIST.NEIGHBOR*IVALS", "LIST.NEIGHBOR*FVALS"];

fn instr_strategy() -> BoxedStrategy<(String, StateSpec)> {
    let rec = prop::collection::vec(prop_oneof![(0i32..9).prop_map(ItemSpec::Int), any::<bool>().prop_map(ItemSpec::Bool), (0i32..9).prop_map(|x| ItemSpec::Float(x as f32 / 2.0)), Just(ItemSpec::List(vec![ItemSpec::Int(77), ItemSpec::Bool(true)]))], 0..5).prop_map(ItemSpec::List);
    let size = prop_oneof![6 => 0i32..70, 1 => prop::sample::select(vec![-1, -5, 125, 216, 343, 512, 124, 126, i32::MIN])];
    let index = prop_oneof![5 => -2i32..72, 1 => prop::sample::select(vec![i32::MAX, i32::MIN, 1000])];
    let dims = prop_oneof![6 => -1i32..6, 1 => prop::sample::select(vec![i32::MAX, i32::MIN, 7, 70])];
    let radius = prop_oneof![6 => prop::sample::select(radii()), 1 => prop::sample::select(vec![-1.0f32, f32::NAN, f32::INFINITY, f32::NEG_INFINITY, -0.0])];
    let n = prop::sample::select(vec![0, 1, 2, -1, 5, i32::MAX]);
    (prop::sample::select(NB.to_vec()), size, index, dims, radius, n, prop::collection::vec(rec, 0..8), gen::int_small(), any::<bool>())
        .prop_map(|(name, size, index, dims, radius, n, code, extra, short)| {
            let mut s = StateSpec::default();
            s.code = code;
            s.floats = vec![radius, 9.5];
            s.ints = vec![size, index, dims, extra];
            if name != "LIST.NEIGHBOR*IDS" {
                s.ints.insert(0, n);
            }
            s.bools = vec![true];
            if short {
                s.ints.truncate(2);
            }
            (name.to_string(), s)
        })
        .boxed()
}
fn judge_instr_case(name: &str, s: &StateSpec) -> CaseResult {
    let mut s2 = s.clone();
    crate::envelope::clamp_sizes_spec(&mut s2, name);
    let j = judge_instr("C20", name, &s2, false)?;
    let mut h = Fnv::new();
    h.str(name);
    h.u64(s2.digest());
    let mut o = CaseOut::new(j.compared && j.needs_met, h.0).class(name.to_string());
    if j.unspecified.is_some() {
        o = o.class("unspecified-corner");
    }
    Ok(o)
}

/// random ORDER of (ntotal, ndim, centre, radius) queries on each thread: a result must not
/// depend on which query was answered before (derived values remembered between calls)
fn random_order(ctx: &Ctx, n: u64) -> SubReport {
    run_sharded(
        ctx,
        "random-order-queries",
        n,
        || prop::collection::vec((1usize..=150, 1usize..=5, any::<u16>(), prop::sample::select(radii())), 1..12),
        |qs: &Vec<(usize, usize, u16, f32)>| {
            let mut h = Fnv::new();
            for (nt, nd, pick, r) in qs {
                let c = gen::pick_index(*pick, *nt);
                h.u64(*nt as u64);
                h.u64(*nd as u64);
                h.u64(c as u64);
                let got = guarded(|| Topology::find_neighbors(nt, nd, &c, r)).map_err(|(l, m)| Fail::new(format!("C20/find_neighbors/panic@{}", l), m))?;
                let want = neighbours(*nt, *nd, c, *r as f64);
                if got.map(|v| v.values) != want {
                    return Err(Fail::new("C20/neighbour-set-depends-on-query-order", format!("query (ntotal {}, ndim {}, centre {}, radius {}) inside the sequence {:?} differs from the brute-force set", nt, nd, c, r, qs.iter().map(|q| (q.0, q.1)).collect::<Vec<_>>())));
                }
            }
            Ok(CaseOut::new(qs.len() >= 3, h.0))
        },
        |qs| json!({"queries": qs.iter().map(|(a, b, c, d)| json!([a, b, c, fjson(*d)])).collect::<Vec<_>>()}),
    )
}

pub fn run(ctx: &Ctx) -> PropReport {
    let mut rep = PropReport::new(
        "exhaustive grid: ntotal 1..64 (quick) / 1..216 (thorough) x ndim 1..4 (5) x every centre x ten radii (integers and mid-points between lattice distances) plus perfect powers e^d and their neighbours; decompose_index for every index of every hypercube with edge^dim <= 4096; out-of-domain arguments; LIST.NEIGHBOR* with operand tuples incl. negative, oversized, NaN; non-trivial = ntotal >= 3 (grid), hypercube with >= 4 cells, operands present and value compared (instructions)",
        "REF by brute force in integers: edge = least e with e^ndim >= ntotal, digits base e, neighbour set = { j < ntotal : sum of squared coordinate differences <= r^2 } ascending. META: contains the centre, ascending valid indices, symmetric, monotone in the radius. decompose_index is a bijection onto the hypercube and inverts by Horner. Instructions after the documented clamping return that set / the n-th values of the records at those CODE positions.",
    );
    rep.assumptions.push("ndim above 6 (edge^ndim may overflow) only for no-crash; a NaN radius passed to the API directly is out of domain (the instructions clamp it to 0)".into());
    rep.push(grid(ctx));
    rep.push(decompose(ctx));
    rep.push(robustness(ctx));
    rep.push(large(ctx));
    rep.push(random_order(ctx, ctx.tier.pick(30_000, 300_000)));
    rep.push(run_sharded(ctx, "instructions", ctx.tier.pick(150_000, 1_000_000), instr_strategy, |(n, s): &(String, StateSpec)| judge_instr_case(n, s), |(n, s)| json!({"instruction": n, "state": s.to_json(), "brief": s.brief()})));
    for r in crate::props::incontext::run_all(ctx, ctx.tier.pick(40_000, 600_000)) {
        rep.push(r);
    }
    rep
}

pub fn exec_journalled(v: &Value) -> Result<(), String> {
    let n = v.get("ntotal").and_then(|x| x.as_u64()).unwrap_or(1) as usize;
    let d = v.get("ndim").and_then(|x| x.as_u64()).unwrap_or(1) as usize;
    guarded(|| {
        for c in 0..n.min(300) {
            let _ = Topology::find_neighbors(&n, &d, &c, &1.0);
        }
    })
    .map_err(|(l, m)| format!("panic at {}: {}", l, m))
}

pub fn replay(_ctx: &Ctx, sub: &str, case: &Value) -> Result<(), Fail> {
    let bad = || Fail::new("replay-format", "cannot decode C20 case");
    if sub == "instructions" {
        let name = case.get("instruction").and_then(|x| x.as_str()).ok_or_else(bad)?;
        let s = StateSpec::from_json(case.get("state").ok_or_else(bad)?).ok_or_else(bad)?;
        return judge_instr_case(name, &s).map(|_| ());
    }
    if let Some(qs) = case.get("queries").and_then(|x| x.as_array()) {
        for q in qs {
            let (nt, nd, c, r) = (q.get(0).and_then(|x| x.as_u64()).unwrap_or(1) as usize, q.get(1).and_then(|x| x.as_u64()).unwrap_or(1) as usize, q.get(2).and_then(|x| x.as_u64()).unwrap_or(0), q.get(3).and_then(fparse).unwrap_or(0.0));
            let c = gen::pick_index(c as u16, nt);
            let got = guarded(|| Topology::find_neighbors(&nt, &nd, &c, &r)).map_err(|(l, m)| Fail::new(format!("C20/find_neighbors/panic@{}", l), m))?;
            if got.map(|v| v.values) != neighbours(nt, nd, c, r as f64) {
                return Err(Fail::new("C20/neighbour-set-depends-on-query-order", format!("query ({}, {}, {}, {})", nt, nd, c, r)));
            }
        }
        return Ok(());
    }
    if let (Some(n), Some(d)) = (case.get("ntotal").and_then(|x| x.as_u64()), case.get("ndim").and_then(|x| x.as_u64())) {
        if sub == "exhaustive-grid" {
            return check_one(n as usize, d as usize).map(|_| ());
        }
        let c = case.get("centre").and_then(|x| x.as_u64()).unwrap_or(0) as usize;
        let r = case.get("radius").and_then(fparse).unwrap_or(0.0);
        return guarded(|| Topology::find_neighbors(&(n as usize), &(d as usize), &c, &r)).map(|_| ()).map_err(|(l, m)| Fail::new(format!("C20/find_neighbors/panic@{}", l), m));
    }
    if let (Some(e), Some(d), Some(i)) = (case.get("edge").and_then(|x| x.as_u64()), case.get("ndim").and_then(|x| x.as_u64()), case.get("index").and_then(|x| x.as_u64())) {
        let got = Topology::decompose_index(&(i as usize), &(e as usize), &(d as usize));
        if got != coords(i as usize, e as usize, d as usize) {
            return Err(Fail::new("C20/decompose_index/not-a-bijection", format!("{:?}", got)));
        }
        return Ok(());
    }
    Err(bad())
}
