//! Instruction semantics in program context: generated programs over the whole (RAND-free)
//! registry on generated initial states, executed in lock-step against the reference
//! interpreter. The operand states of an instruction are the ones *executions reach*, not the
//! ones a state generator draws. A property reports only the mismatches of the instructions it
//! owns (footprint table, column `owner`); the others belong to their owners' runs of the same
//! sub-check.

use crate::engine::*;
use crate::gen;
use crate::lockstep::{context_skip, lockstep_opts, owner_of};
use crate::spec::*;
use proptest::prelude::*;
use serde_json::{json, Value};
use std::collections::BTreeSet;

pub fn names() -> Vec<String> {
    crate::props::c02::rand_free_names().into_iter().filter(|n| !crate::exec::USER_INSTRUCTIONS.contains(&n.as_str())).collect()
}

fn strategy() -> BoxedStrategy<StateSpec> {
    let names = names();
    let kinds = gen::AtomKinds::all(names.clone());
    let mut p = gen::StateParams::full(names);
    p.max_depth = 3;
    p.tree_depth = 2;
    p.tree_size = 6;
    (gen::state(&p), prop::collection::vec(gen::program(&kinds, 3, 20), 1..3))
        .prop_map(|(mut s, progs)| {
            s.exec = progs;
            s.config.eval_push_limit = 1000;
            s
        })
        .boxed()
}

/// Programs dominated by the instructions the property owns (about three quarters of the
/// instruction atoms), twice as long: an owned instruction is executed several times in one run,
/// on operands its own earlier executions left behind (second use, use after a FLUSH / DEFINE /
/// loop iteration), which the uniform registry draw reaches only rarely.
fn strategy_focused(prop: &str) -> BoxedStrategy<StateSpec> {
    let all = names();
    let owned: Vec<String> = all.iter().filter(|n| owner_of(n) == prop).cloned().collect();
    let reps = ((3 * all.len()) / owned.len().max(1)).clamp(1, 60);
    let mut instrs = all.clone();
    for _ in 0..reps {
        instrs.extend(owned.iter().cloned());
    }
    let kinds = gen::AtomKinds::all(instrs);
    let mut p = gen::StateParams::full(all);
    p.max_depth = 4;
    p.tree_depth = 2;
    p.tree_size = 6;
    (gen::state(&p), prop::collection::vec(gen::program(&kinds, 3, 40), 1..3))
        .prop_map(|(mut s, progs)| {
            s.exec = progs;
            s.config.eval_push_limit = 1000;
            s
        })
        .boxed()
}

pub fn judge(prop: &str, s: &StateSpec) -> CaseResult {
    let reg: BTreeSet<String> = crate::exec::registry_names().into_iter().collect();
    let skip = |n: &str, before: &StateSpec| context_skip(n, before);
    match lockstep_opts(prop, s, 250, &reg, &skip, true) {
        Ok(r) => {
            let owned = r.instrs.iter().filter(|n| owner_of(n) == prop).count();
            Ok(CaseOut::new(owned >= 2 && r.steps >= 10, s.digest()).class(format!("owned-instructions-compared:{}", owned.min(8))).class(if r.cut_by_envelope { "cut-by-envelope" } else if r.finished { "terminated" } else { "cut-at-250" }))
        }
        Err(f) => {
            // signature = <prop>/<label>/<component or panic@..>
            let label = f.signature.split('/').nth(1).unwrap_or("").to_string();
            let is_panic = f.signature.contains("/panic@");
            if !is_panic && owner_of(&label) == prop {
                Err(f)
            } else {
                Ok(CaseOut::new(false, s.digest()).class(if is_panic { "panic (C01's subject)" } else { "mismatch owned by another property" }))
            }
        }
    }
}

pub fn run_focused(ctx: &Ctx, n: u64) -> SubReport {
    let prop = ctx.prop.clone();
    let prop2 = ctx.prop.clone();
    let mut rep = run_sharded(ctx, "in-program-context-focused", n, move || strategy_focused(&prop2), move |s: &StateSpec| judge(&prop, s), |s| json!({"state": s.to_json(), "program": s.exec.iter().map(|x| x.render()).collect::<Vec<_>>().join(" | ")}));
    rep.notes.push("as in-program-context, but about three quarters of the instruction atoms are instructions owned by this property and programs are twice as long: repeated executions of one instruction inside one run, on operands left behind by its own earlier executions".into());
    rep
}

pub fn run(ctx: &Ctx, n: u64) -> SubReport {
    let prop = ctx.prop.clone();
    let mut rep = run_sharded(ctx, "in-program-context", n, strategy, move |s: &StateSpec| judge(&prop, s), |s| json!({"state": s.to_json(), "program": s.exec.iter().map(|x| x.render()).collect::<Vec<_>>().join(" | ")}));
    rep.notes.push("programs over the whole RAND-free registry on generated states, <= 250 lock-stepped steps against the reference interpreter (size operands clamped, resource envelope); only mismatches at instructions owned by this property (footprint table) are reported here; not value-compared: BOOLEAN.FROMFLOAT/FROMINTEGER (known finding K2), `=`/DISCREPANCY on items with floats or vectors (printed-form comparison is pinned and not injective there), structural CODE instructions on items containing NaN (unspecified)".into());
    rep
}

/// quick: the generated sub-check; thorough: additionally the coverage-guided campaign of the
/// lockstep_ref libFuzzer target restricted to this property's instructions (PV_OWNER)
pub fn run_all(ctx: &Ctx, n: u64) -> Vec<SubReport> {
    let mut v = vec![run(ctx, n), run_focused(ctx, n / 2), crate::props::related::run(ctx, n / 2)];
    if ctx.tier == Tier::Thorough {
        let mut r = crate::fuzzrun::campaign_env(ctx, &ctx.prop, "lockstep_ref", 1_000_000, 1024, &[("PV_OWNER", ctx.prop.as_str())]);
        r.notes.push("target: bytes -> initial stacks, bindings and a program tree over the RAND-free registry -> <= 200 steps in lock-step with the reference interpreter; aborts on a mismatch at an instruction owned by this property".into());
        v.push(r);
    }
    v
}

pub fn replay(ctx: &Ctx, case: &Value) -> Result<(), Fail> {
    let s = case.get("state").and_then(StateSpec::from_json).ok_or_else(|| Fail::new("replay-format", "cannot decode in-program-context case"))?;
    judge(&ctx.prop, &s).map(|_| ())
}
