//! C04 — scalar instructions compute what they document.
//!
//! REF on the whole snapshot + DIFF between the dev (overflow checks on) and release builds.

use crate::engine::*;
use crate::exec;
use crate::gen;
use crate::single::*;
use crate::spec::*;
use proptest::prelude::*;
use serde_json::{json, Value};

pub const NAMES: [&str; 41] = [
    "BOOLEAN.=", "BOOLEAN.AND", "BOOLEAN.OR", "BOOLEAN.NOT", "BOOLEAN.FROMFLOAT", "BOOLEAN.FROMINTEGER",
    "INTEGER.%", "INTEGER.*", "INTEGER.+", "INTEGER.-", "INTEGER./", "INTEGER.<", "INTEGER.=", "INTEGER.>",
    "INTEGER.ABS", "INTEGER.MAX", "INTEGER.MIN", "INTEGER.FROMBOOLEAN", "INTEGER.FROMFLOAT",
    "FLOAT.%", "FLOAT.*", "FLOAT.+", "FLOAT.-", "FLOAT./", "FLOAT.<", "FLOAT.=", "FLOAT.>", "FLOAT.COS", "FLOAT.SIN",
    "FLOAT.TAN", "FLOAT.EXP", "FLOAT.MAX", "FLOAT.MIN", "FLOAT.FROMBOOLEAN", "FLOAT.FROMINTEGER",
    "NAME.=", "NAME.CAT", "CODE.FROMBOOLEAN", "CODE.FROMFLOAT", "CODE.FROMINTEGER", "CODE.FROMNAME",
];

fn params() -> gen::StateParams {
    let mut p = gen::StateParams::full(vec!["NOOP".into(), "INTEGER.+".into()]);
    p.max_depth = 3; // 0..3 bystanders under the operands
    p.tree_depth = 2;
    p.tree_size = 6;
    p
}

pub fn case_strategy() -> BoxedStrategy<(String, StateSpec)> {
    let p = params();
    // NAME operands: the host can put any string on the NAME stack - in a tenth of the cases one
    // of the top two names is empty, contains a blank or is a single character
    (state_for_any(NAMES.iter().map(|s| s.to_string()).collect(), &p), 0u8..20, prop::sample::select(vec!["", " ", "a b", "x", "", "TRUE"]))
        .prop_map(|((name, mut s), k, odd)| {
            if k < 2 && s.names.len() > k as usize {
                s.names[k as usize] = odd.to_string();
            }
            (name, s)
        })
        .boxed()
}

fn operands_distinct(name: &str, s: &StateSpec) -> bool {
    let t = name.split('.').next().unwrap();
    let binary = matches!(name.split('.').nth(1).unwrap(), "=" | "AND" | "OR" | "%" | "*" | "+" | "-" | "/" | "<" | ">" | "MAX" | "MIN" | "CAT");
    if !binary {
        return true;
    }
    match t {
        "BOOLEAN" => s.bools.len() >= 2 && s.bools[0] != s.bools[1],
        "INTEGER" => s.ints.len() >= 2 && s.ints[0] != s.ints[1],
        "FLOAT" => s.floats.len() >= 2 && !feq(s.floats[0], s.floats[1]),
        "NAME" => s.names.len() >= 2 && s.names[0] != s.names[1],
        _ => true,
    }
}

pub fn judge(name: &str, s: &StateSpec) -> CaseResult {
    let j = match judge_instr("C04", name, s, false) {
        Ok(j) => j,
        Err(mut f) => {
            // K2: distinguish "exactly the documented shape, value inverted" from anything else
            if (name == "BOOLEAN.FROMFLOAT" || name == "BOOLEAN.FROMINTEGER") && f.signature.ends_with("/BOOLEAN") {
                if let Ok(after) = exec::step_named_on(s, name) {
                    let mut flipped = after.clone();
                    if !flipped.bools.is_empty() {
                        flipped.bools[0] = !flipped.bools[0];
                        if let Some(Ok(())) = crate::refmodel::ref_instr(s, name).judge(&flipped.canonical()) {
                            f.signature = format!("C04/{}/inverted-value", name);
                        }
                    }
                }
            }
            return Err(f);
        }
    };
    let mut h = Fnv::new();
    h.str(name);
    h.u64(s.digest());
    let mut out = CaseOut::new(j.compared && operands_distinct(name, s), h.0).class(name.to_string());
    if j.unspecified.is_some() {
        out = out.class("unspecified");
    }
    Ok(out)
}

fn case_json(name: &str, s: &StateSpec) -> Value {
    json!({"instruction": name, "state": s.to_json(), "brief": s.brief()})
}

/// Deterministic generation of the i-th differential case (same in both binaries).
fn diff_case(seed: u64, i: u64) -> (String, StateSpec) {
    let mut r = det_runner(derive_seed(seed, &["C04", "profile-diff"], i, 0));
    draw(&case_strategy(), &mut r)
}
fn exec_digest(name: &str, s: &StateSpec) -> String {
    match exec::step_named_on(s, name) {
        Ok(after) => format!("{:016x}", after.digest()),
        Err((loc, _)) => format!("panic@{}", loc),
    }
}
/// Release-leg entry: prints "i in_digest out_digest" lines.
pub fn leg(seed: u64, n: u64) {
    for i in 0..n {
        let (name, s) = diff_case(seed, i);
        let mut h = Fnv::new();
        h.str(&name);
        h.u64(s.digest());
        exec::say(&format!("{} {:016x} {}", i, h.0, exec_digest(&name, &s)));
    }
}

fn profile_diff(ctx: &Ctx, n: u64) -> SubReport {
    let mut rep = SubReport::new("profile-diff");
    let bin = match std::env::var("PV_RELEASE_BIN") {
        Ok(b) if std::path::Path::new(&b).exists() => b,
        _ => {
            rep.inconclusive.push("release binary not available (PV_RELEASE_BIN)".into());
            return rep;
        }
    };
    let out = std::process::Command::new(&bin)
        .args(["C04", "--leg", &ctx.seed.to_string(), &n.to_string()])
        .output();
    let out = match out {
        Ok(o) if o.status.success() => String::from_utf8_lossy(&o.stdout).to_string(),
        _ => {
            rep.inconclusive.push("release leg failed to run".into());
            return rep;
        }
    };
    let lines: Vec<&str> = out.lines().collect();
    if lines.len() as u64 != n {
        rep.inconclusive.push(format!("release leg printed {} lines, expected {}", lines.len(), n));
        return rep;
    }
    let results = par_map(ctx, "profile-diff", n, |i, rep| {
        let (name, s) = diff_case(ctx.seed, i);
        let mut h = Fnv::new();
        h.str(&name);
        h.u64(s.digest());
        let mine = format!("{} {:016x} {}", i, h.0, exec_digest(&name, &s));
        rep.evaluations += 1;
        let theirs = lines[i as usize];
        let f: Vec<&str> = theirs.split_whitespace().collect();
        let m: Vec<&str> = mine.split_whitespace().collect();
        if f.len() != 3 || f[1] != m[1] {
            rep.inconclusive.push(format!("case {} differs between the legs' generators ({} vs {})", i, mine, theirs));
            return;
        }
        if crate::footprint::get(&name).map(|f| f.needs_met(&s)).unwrap_or(false) {
            rep.nontrivial.insert(h.0);
        }
        if f[2] != m[2] {
            rep.fail(
                ctx,
                Fail::new(
                    format!("C04/{}/build-profile", name),
                    format!("{}: dev build gives {} but release build gives {} | state before: {}", name, m[2], f[2], s.brief()),
                ),
                case_json(&name, &s),
            );
        }
        if i < 2 {
            rep.sample(case_json(&name, &s));
        }
    });
    rep.merge(results);
    rep
}

pub fn run(ctx: &Ctx) -> PropReport {
    let mut rep = PropReport::new(
        "the 41 scalar instruction names x operand tuples from the boundary pools (plus random) with 0..3 bystanders on every stack, executed by name through the registry; non-trivial = all documented operands present, the value was compared, and (binary operations) the two operands differ; distinct = (name, state) digest",
        "REF oracle on the whole snapshot (operand stacks lose exactly the documented items, the result stack gains exactly the reference value, everything else identical) + DIFF: the same deterministically generated cases executed by the dev (overflow checks on) and the release binary must give identical snapshots.",
    );
    rep.assumptions.push("INTEGER.% is the truncated remainder (pinned by integer_modulus_pushes_result although the comment says floored)".into());
    rep.assumptions.push("trigonometric/exponential results: within max(4 ulp, 1e-6 relative) of the f64 evaluation".into());
    rep.assumptions.push("unrepresentable integer results and float-to-int out of range: any i32; zero divisor: operands both consumed or both intact".into());
    let per = ctx.tier.pick(6000u64, 100_000u64);
    rep.push(run_sharded(ctx, "reference", per * NAMES.len() as u64, case_strategy, |(n, s): &(String, StateSpec)| judge(n, s), |(n, s)| case_json(n, s)));
    rep.push(profile_diff(ctx, ctx.tier.pick(60_000, 400_000)));
    for r in crate::props::incontext::run_all(ctx, ctx.tier.pick(40_000, 600_000)) {
        rep.push(r);
    }
    rep
}

pub fn replay(_ctx: &Ctx, sub: &str, case: &Value) -> Result<(), Fail> {
    let bad = || Fail::new("replay-format", "cannot decode C04 case");
    let name = case.get("instruction").and_then(|x| x.as_str()).ok_or_else(bad)?;
    let s = StateSpec::from_json(case.get("state").ok_or_else(bad)?).ok_or_else(bad)?;
    if sub == "profile-diff" {
        let mine = exec_digest(name, &s);
        if let Ok(bin) = std::env::var("PV_RELEASE_BIN") {
            let tmp = format!("{}/work", crate::verif_root());
            let _ = std::fs::create_dir_all(&tmp);
            let path = format!("{}/c04-replay-{}.json", tmp, std::process::id());
            std::fs::write(&path, serde_json::to_string(case).unwrap()).map_err(|_| bad())?;
            let out = std::process::Command::new(&bin).args(["C04", "--digest", &path]).output().map_err(|_| bad())?;
            let _ = std::fs::remove_file(&path);
            let theirs = String::from_utf8_lossy(&out.stdout).trim().to_string();
            if theirs != mine {
                return Err(Fail::new(format!("C04/{}/build-profile", name), format!("dev {} vs release {}", mine, theirs)));
            }
        }
        if mine.starts_with("panic") {
            return Err(Fail::new(format!("C04/{}/build-profile", name), format!("dev build: {}", mine)));
        }
        return Ok(());
    }
    judge(name, &s).map(|_| ())
}

/// `pv C04 --digest FILE`: print the execution digest of one saved case (used by replay).
pub fn digest_file(path: &str) {
    if let Ok(txt) = std::fs::read_to_string(path) {
        if let Ok(case) = serde_json::from_str::<Value>(&txt) {
            if let (Some(name), Some(s)) = (case.get("instruction").and_then(|x| x.as_str()), case.get("state").and_then(StateSpec::from_json)) {
                exec::say(&exec_digest(name, &s));
            }
        }
    }
}

/// Known finding K2: BOOLEAN.FROMFLOAT / FROMINTEGER push the inverted value.
pub fn probe_known(key: &str) -> Option<bool> {
    let mut s = StateSpec::default();
    match key {
        "C04/BOOLEAN.FROMFLOAT/inverted-value" => {
            s.floats = vec![0.0];
            let a = exec::step_named_on(&s, "BOOLEAN.FROMFLOAT").ok()?;
            s.floats = vec![2.5];
            let b = exec::step_named_on(&s, "BOOLEAN.FROMFLOAT").ok()?;
            Some(a.bools == vec![true] || b.bools == vec![false])
        }
        "C04/BOOLEAN.FROMINTEGER/inverted-value" => {
            s.ints = vec![0];
            let a = exec::step_named_on(&s, "BOOLEAN.FROMINTEGER").ok()?;
            s.ints = vec![7];
            let b = exec::step_named_on(&s, "BOOLEAN.FROMINTEGER").ok()?;
            Some(a.bools == vec![true] || b.bools == vec![false])
        }
        _ => None,
    }
}
