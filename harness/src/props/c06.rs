//! C06 — control flow runs code in the documented order, the documented number of times.

use crate::engine::*;
use crate::exec::{reset_tick_machine, with_tick_machine, TICK_LOG};
use crate::gen;
use crate::lockstep::lockstep;
use crate::single::*;
use crate::spec::*;
use proptest::prelude::*;
use serde_json::{json, Value};
use std::collections::BTreeSet;

// ---------------------------------------------------------------------------------------------
// (L)+(O): closed-form programs

#[derive(Clone, Debug)]
pub enum El {
    Tick(i32),
    Pad(u8),
    Sub(Vec<El>),
    ExecLoop(i32, Vec<El>),
    CodeLoop(i32, Vec<El>),
    VecLoop(Vec<i32>, Vec<El>),
    IfExec(bool, Vec<El>, Vec<El>),
    IfCode(bool, Vec<El>, Vec<El>),
    K(Vec<El>, Vec<El>),
    S(Vec<El>, Vec<El>, Vec<El>),
    Dup(Vec<El>),
    Do(Vec<El>),
    DoStar(Vec<El>),
    /// counted EXEC.Y loop (the shape of the repository's potentiation example):
    /// n EXEC.Y ( body 1 INTEGER.- INTEGER.DUP 0 INTEGER.> EXEC.IF ( ) EXEC.POP ) INTEGER.POP
    YLoop(i32, Vec<El>),
}
use El::*;

fn ins(n: &str) -> ItemSpec {
    ItemSpec::instr(n)
}
fn block(v: &[El]) -> ItemSpec {
    ItemSpec::List(render(v))
}
fn render(v: &[El]) -> Vec<ItemSpec> {
    let mut out = vec![];
    for e in v {
        match e {
            Tick(k) => {
                out.push(ItemSpec::Int(*k));
                out.push(ins("TICK"));
            }
            Pad(p) => match p % 5 {
                0 => out.push(ins("NOOP")),
                1 => {
                    out.push(ItemSpec::Float(1.5));
                    out.push(ins("FLOAT.POP"));
                }
                2 => out.push(ItemSpec::List(vec![])),
                3 => {
                    out.push(ItemSpec::Bool(true));
                    out.push(ins("BOOLEAN.POP"));
                }
                _ => out.push(ItemSpec::List(vec![ins("NOOP"), ItemSpec::List(vec![ins("CODE.NOOP")])])),
            },
            Sub(b) => out.push(block(b)),
            ExecLoop(n, b) => {
                out.push(ItemSpec::Int(*n));
                out.push(ins("INDEX.DEFINE"));
                out.push(ins("EXEC.LOOP"));
                out.push(block(b));
            }
            CodeLoop(n, b) => {
                out.push(ins("CODE.QUOTE"));
                out.push(block(b));
                out.push(ItemSpec::Int(*n));
                out.push(ins("INDEX.DEFINE"));
                out.push(ins("CODE.LOOP"));
            }
            VecLoop(v, b) => {
                out.push(ItemSpec::IVec(v.clone()));
                out.push(ins("INTVECTOR.LOOP"));
                out.push(block(b));
            }
            IfExec(c, a, b) => {
                out.push(ItemSpec::Bool(*c));
                out.push(ins("EXEC.IF"));
                out.push(block(a));
                out.push(block(b));
            }
            IfCode(c, a, b) => {
                out.push(ins("CODE.QUOTE"));
                out.push(block(a));
                out.push(ins("CODE.QUOTE"));
                out.push(block(b));
                out.push(ItemSpec::Bool(*c));
                out.push(ins("CODE.IF"));
            }
            K(a, b) => {
                out.push(ins("EXEC.K"));
                out.push(block(a));
                out.push(block(b));
            }
            S(a, b, c) => {
                out.push(ins("EXEC.S"));
                out.push(block(a));
                out.push(block(b));
                out.push(block(c));
            }
            Dup(a) => {
                out.push(ins("EXEC.DUP"));
                out.push(block(a));
            }
            Do(a) => {
                out.push(ins("CODE.QUOTE"));
                out.push(block(a));
                out.push(ins("CODE.DO"));
            }
            DoStar(a) => {
                out.push(ins("CODE.QUOTE"));
                out.push(block(a));
                out.push(ins("CODE.DO*"));
            }
            YLoop(n, b) => {
                out.push(ItemSpec::Int(*n));
                out.push(ins("EXEC.Y"));
                let mut body = render(b);
                body.extend(vec![ItemSpec::Int(1), ins("INTEGER.-"), ins("INTEGER.DUP"), ItemSpec::Int(0), ins("INTEGER.>"), ins("EXEC.IF"), ItemSpec::List(vec![]), ins("EXEC.POP")]);
                out.push(ItemSpec::List(body));
                out.push(ins("INTEGER.POP"));
            }
        }
    }
    out
}

struct Env {
    index: Vec<(usize, usize)>,
    ints: Vec<i32>,
    log: Vec<(i32, i64, Option<i32>)>,
    budget: usize,
}
/// the documented meaning, evaluated directly on the loop nest (no stepping)
fn eval(v: &[El], env: &mut Env) {
    for e in v {
        if env.budget == 0 {
            return;
        }
        env.budget -= 1;
        match e {
            Tick(k) => {
                let cur = env.index.first().map(|i| i.0 as i64).unwrap_or(-1);
                let top = env.ints.first().cloned();
                env.log.push((*k, cur, top));
            }
            Pad(_) => {}
            Sub(b) => eval(b, env),
            ExecLoop(n, b) | CodeLoop(n, b) => {
                let n = (*n).max(0) as usize;
                for i in 0..n {
                    env.index.insert(0, (i, n));
                    eval(b, env);
                    env.index.remove(0);
                }
            }
            VecLoop(vs, b) => {
                for x in vs {
                    env.ints.insert(0, *x);
                    eval(b, env);
                }
            }
            IfExec(c, a, b) | IfCode(c, a, b) => eval(if *c { a } else { b }, env),
            K(a, _) => eval(a, env),
            S(a, b, c) => {
                eval(a, env);
                eval(c, env);
                eval(b, env);
                eval(c, env);
            }
            Dup(a) => {
                eval(a, env);
                eval(a, env);
            }
            Do(a) | DoStar(a) => eval(a, env),
            YLoop(n, b) => {
                // the counter lives on the INTEGER stack while the body runs
                env.ints.insert(0, *n);
                loop {
                    eval(b, env);
                    if env.budget == 0 {
                        return;
                    }
                    env.ints[0] = env.ints[0].wrapping_sub(1);
                    if env.ints[0] <= 0 {
                        break;
                    }
                }
                env.ints.remove(0);
            }
        }
    }
}
fn contains_code_loop(v: &[El]) -> bool {
    v.iter().any(|e| match e {
        CodeLoop(_, _) => true,
        Tick(_) | Pad(_) => false,
        Sub(b) | ExecLoop(_, b) | VecLoop(_, b) | Dup(b) | Do(b) | DoStar(b) | YLoop(_, b) => contains_code_loop(b),
        IfExec(_, a, b) | IfCode(_, a, b) | K(a, b) => contains_code_loop(a) || contains_code_loop(b),
        S(a, b, c) => contains_code_loop(a) || contains_code_loop(b) || contains_code_loop(c),
    })
}
fn nest_depth(v: &[El]) -> usize {
    v.iter()
        .map(|e| match e {
            ExecLoop(_, b) | VecLoop(_, b) | CodeLoop(_, b) | YLoop(_, b) => 1 + nest_depth(b),
            Tick(_) | Pad(_) => 0,
            Sub(b) | Dup(b) | Do(b) | DoStar(b) => nest_depth(b),
            IfExec(_, a, b) | IfCode(_, a, b) | K(a, b) => nest_depth(a).max(nest_depth(b)),
            S(a, b, c) => nest_depth(a).max(nest_depth(b)).max(nest_depth(c)),
        })
        .max()
        .unwrap_or(0)
}

fn el_strategy(with_code_loop: bool) -> BoxedStrategy<Vec<El>> {
    let leaf = prop_oneof![4 => (0i32..1000).prop_map(Tick), 2 => any::<u8>().prop_map(Pad)];
    let el = leaf.prop_recursive(4, 24, 4, move |inner| {
        let b = prop::collection::vec(inner.clone(), 0..4);
        let mut alts: Vec<(u32, BoxedStrategy<El>)> = vec![
            (4, (prop_oneof![3 => 0i32..=6, 1 => -2i32..0], b.clone()).prop_map(|(n, b)| ExecLoop(n, b)).boxed()),
            (4, (prop::collection::vec(-9i32..10, 0..=5), b.clone()).prop_map(|(v, b)| VecLoop(v, b)).boxed()),
            (2, b.clone().prop_map(Sub).boxed()),
            (2, (any::<bool>(), b.clone(), b.clone()).prop_map(|(c, x, y)| IfExec(c, x, y)).boxed()),
            (2, (any::<bool>(), b.clone(), b.clone()).prop_map(|(c, x, y)| IfCode(c, x, y)).boxed()),
            (1, (b.clone(), b.clone()).prop_map(|(x, y)| K(x, y)).boxed()),
            (1, (b.clone(), b.clone(), b.clone()).prop_map(|(x, y, z)| S(x, y, z)).boxed()),
            (1, b.clone().prop_map(Dup).boxed()),
            (1, b.clone().prop_map(Do).boxed()),
            (1, b.clone().prop_map(DoStar).boxed()),
        ];
        if with_code_loop {
            alts.push((2, (0i32..=4, b.clone()).prop_map(|(n, b)| CodeLoop(n, b)).boxed()));
        }
        // EXEC.Y loop: the body must leave the INTEGER stack as it found it (no INTVECTOR.LOOP inside)
        alts.push((3, (-1i32..=5, neutral_block()).prop_map(|(n, b)| YLoop(n, b)).boxed()));
        proptest::strategy::Union::new_weighted(alts)
    });
    prop::collection::vec(el, 1..5).boxed()
}

/// blocks that do not change the INTEGER stack: ticks, padding, sub-lists, EXEC.LOOPs, IF, DUP
fn neutral_block() -> BoxedStrategy<Vec<El>> {
    let leaf = prop_oneof![4 => (0i32..1000).prop_map(Tick), 2 => any::<u8>().prop_map(Pad)];
    let el = leaf.prop_recursive(2, 8, 3, |inner| {
        let b = prop::collection::vec(inner, 0..3);
        prop_oneof![
            (0i32..=3, b.clone()).prop_map(|(n, b)| ExecLoop(n, b)),
            b.clone().prop_map(Sub),
            (any::<bool>(), b.clone(), b.clone()).prop_map(|(c, x, y)| IfExec(c, x, y)),
            b.prop_map(Dup),
        ]
    });
    prop::collection::vec(el, 0..4).boxed()
}

thread_local! {
    static LAST_WORK: std::cell::Cell<u64> = std::cell::Cell::new(0);
}
fn judge_closed(prog: &Vec<El>) -> CaseResult {
    let mut env = Env { index: vec![(2, 7)], ints: vec![4242], log: vec![], budget: 3000 };
    eval(prog, &mut env);
    let mut h = Fnv::new();
    h.str(&format!("{:?}", prog));
    if env.budget == 0 {
        return Ok(CaseOut::new(false, h.0).class("too-long"));
    }
    let code_loop = contains_code_loop(prog);
    let sig = |what: &str| if code_loop { "C06/CODE.LOOP/iteration-count-and-cleanup".to_string() } else { format!("C06/closed-form/{}", what) };
    let mut s = StateSpec::default();
    s.exec = vec![ItemSpec::List(render(prog))];
    s.index = vec![(2, 7)];
    s.ints = vec![4242];
    s.ivecs = vec![vec![7, 7]];
    s.code = vec![ItemSpec::name("bystander")];
    crate::supervise::journal_value(&json!({"kind": "c06-closed", "program": s.exec[0].to_json()}));
    let (mut real, _) = s.build();
    let text = s.exec[0].render();
    let steps = guarded(|| {
        TICK_LOG.with(|l| l.borrow_mut().clear());
        with_tick_machine(|m| {
            let mut n = 0usize;
            // work = steps weighted by the size of the list being unpacked / copied; programs of
            // this grammar stay below 1e6 (measured: class work<1e.. in the evidence)
            let mut work = 0u64;
            let mut next_depth_check = 2000usize;
            while n < 200_000 {
                work += 1 + match real.exec_stack.get(0) {
                    Some(it @ pushr::push::item::Item::List { .. }) => pushr::push::item::Item::size(it) as u64,
                    _ => 0,
                };
                if work > 20_000_000 {
                    return usize::MAX - 1;
                }
                if m.step(&mut real) {
                    break;
                }
                n += 1;
                // full envelope check (O(state)) every 32 steps and at every doubling of the EXEC depth
                if n % 32 == 0 || real.exec_stack.size() > next_depth_check {
                    if real.exec_stack.size() > next_depth_check {
                        next_depth_check *= 2;
                    }
                    if crate::envelope::outside(&real) || TICK_LOG.with(|l| l.borrow().len()) > 100_000 {
                        return usize::MAX;
                    }
                }
            }
            LAST_WORK.with(|w| w.set(work));
            n
        })
    });
    let work_class = format!("work<1e{}", (LAST_WORK.with(|w| w.get()).max(1) as f64).log10().floor() as u32 + 1);
    let steps = match steps {
        Ok(n) => n,
        Err((loc, msg)) => {
            reset_tick_machine();
            return Err(Fail::new(format!("C06/closed-form/panic@{}", loc), format!("{} | {}", msg, text)));
        }
    };
    let log: Vec<(i32, i64, Option<i32>)> = TICK_LOG.with(|l| l.borrow().clone());
    let fin = if steps >= usize::MAX - 1 { StateSpec::default() } else { StateSpec::snapshot(&real) };
    if steps == usize::MAX {
        return Err(Fail::new(sig("runaway-growth"), format!("state left the resource envelope | {}", text)));
    }
    if steps == usize::MAX - 1 {
        return Err(Fail::new(sig("does-not-terminate"), format!("still running after 2e7 units of work (steps weighted by the size of the list on top of EXEC) | {}", text)));
    }
    if steps >= 200_000 {
        return Err(Fail::new(sig("does-not-terminate"), format!("still running after {} steps | {}", steps, text)));
    }
    if log != env.log {
        // classify: count or order/index
        let what = if log.len() != env.log.len() { "tick-count" } else { "tick-order-or-index" };
        return Err(Fail::new(
            sig(what),
            format!("ticks (marker, INDEX.CURRENT, top INTEGER): got {:?} expected {:?} | {}", &log[..log.len().min(12)], &env.log[..env.log.len().min(12)], text),
        ));
    }
    if !fin.exec.is_empty() {
        return Err(Fail::new(sig("exec-not-empty"), text));
    }
    if fin.index != s.index {
        return Err(Fail::new(sig("index-left-behind"), format!("INDEX stack {:?} expected {:?} | {}", fin.index, s.index, text)));
    }
    if fin.ivecs != s.ivecs {
        return Err(Fail::new(sig("vector-left-behind"), format!("INTVECTOR stack {:?} | {}", fin.ivecs, text)));
    }
    if fin.ints != env.ints {
        return Err(Fail::new(sig("integer-stack"), format!("INTEGER stack {:?} expected {:?} | {}", fin.ints, env.ints, text)));
    }
    if fin.code != s.code {
        return Err(Fail::new(sig("code-left-behind"), format!("CODE stack [{}] | {}", fin.code.iter().map(|x| x.render()).collect::<Vec<_>>().join(" | "), text)));
    }
    let nd = nest_depth(prog);
    Ok(CaseOut::new(env.log.len() >= 2 && nd >= 1, h.0).class(work_class).class(format!("nest{}", nd.min(4))).class(format!("ticks{}", match env.log.len() { 0 => "0", 1..=4 => "1-4", 5..=30 => "5-30", _ => ">30" })))
}

// ---------------------------------------------------------------------------------------------
// (S) single steps, (R) random control-flow programs

const SINGLE: [&str; 18] = [
    "EXEC.IF", "EXEC.K", "EXEC.S", "EXEC.Y", "EXEC.DUP", "CODE.IF", "CODE.DO", "CODE.DO*", "CODE.QUOTE", "CODE.LOOP", "EXEC.LOOP", "INTVECTOR.LOOP", "INDEX.DEFINE", "INDEX.CURRENT",
    "INDEX.DESTINATION", "INDEX.INCREASE", "INDEX.POP", "INDEX.FLUSH",
];
const SUBSET: [&str; 34] = [
    "NOOP", "EXEC.IF", "EXEC.K", "EXEC.S", "EXEC.Y", "EXEC.DUP", "CODE.IF", "CODE.DO", "CODE.DO*", "CODE.QUOTE", "CODE.LOOP", "EXEC.LOOP", "INTVECTOR.LOOP", "INDEX.DEFINE", "INDEX.CURRENT",
    "INDEX.DESTINATION", "INDEX.INCREASE", "INDEX.POP", "INDEX.FLUSH", "EXEC.POP", "EXEC.SWAP", "EXEC.ROT", "EXEC.FLUSH", "CODE.POP", "CODE.DUP", "CODE.SWAP", "INTEGER.+", "INTEGER.POP", "INTEGER.DUP",
    "BOOLEAN.NOT", "BOOLEAN.DUP", "INTEGER.<", "EXEC.YANK", "EXEC.SHOVE",
];

fn single_strategy() -> BoxedStrategy<(String, StateSpec, bool)> {
    let mut p = gen::StateParams::full(SUBSET.iter().map(|s| s.to_string()).collect());
    p.max_depth = 3;
    p.tree_depth = 2;
    p.tree_size = 6;
    p.graphs = false;
    p.io = false;
    let topped = state_for_any(SINGLE.iter().map(|s| s.to_string()).collect(), &p).prop_map(|(n, s)| (n, s, true));
    let raw = (prop::sample::select(SINGLE.to_vec()), gen::state(&p)).prop_map(|(n, s)| (n.to_string(), s, false));
    // "for all EXEC/CODE stack contents": in a sixth of the cases the top EXEC / CODE items are
    // large (30..110 points each, together beyond the default max_points_in_program of 100) or
    // the configured limits are tiny - no combinator is documented to depend on either
    (prop_oneof![3 => topped, 1 => raw], any::<u16>())
        .prop_map(|((n, mut s, t), salt)| {
            let big = |k: usize, base: i32| ItemSpec::List((0..k as i32).map(|i| if i % 7 == 3 { ItemSpec::List(vec![ItemSpec::Int(base + i), ItemSpec::instr("NOOP")]) } else { ItemSpec::Int(base + i) }).collect());
            match salt % 12 {
                0 => {
                    for (i, x) in s.exec.iter_mut().enumerate().take(3) {
                        *x = big(30 + ((salt as usize / 12 + 17 * i) % 70), 100 * i as i32);
                    }
                    for (i, x) in s.code.iter_mut().enumerate().take(2) {
                        *x = big(30 + ((salt as usize / 12 + 29 * i) % 70), 1000 + 100 * i as i32);
                    }
                }
                1 => {
                    s.config.max_points_in_program = [0, 1, 3, 7][(salt as usize / 12) % 4];
                    s.config.max_points_in_random_expressions = [0, 1, 3, 7][(salt as usize / 48) % 4];
                }
                _ => {}
            }
            (n, s, t)
        })
        .boxed()
}
fn judge_single(name: &str, s: &StateSpec) -> CaseResult {
    let j = judge_instr("C06", name, s, true)?;
    let mut h = Fnv::new();
    h.str(name);
    h.u64(s.digest());
    let mut o = CaseOut::new(j.compared && j.needs_met, h.0).class(name.to_string());
    if j.unspecified.is_some() {
        o = o.class("unspecified-corner");
    }
    Ok(o)
}

fn random_program() -> BoxedStrategy<StateSpec> {
    let kinds = gen::AtomKinds {
        ints: true,
        floats: false,
        bools: true,
        names: false,
        instrs: SUBSET.iter().map(|s| s.to_string()).collect(),
        vectors: false,
        float_strategy: None,
    };
    let small_int = (0i32..6).prop_map(ItemSpec::Int);
    let iv = gen::ivec_small(4).prop_map(ItemSpec::IVec);
    let t = prop_oneof![6 => gen::tree(&kinds, 3, 12, 4), 2 => small_int, 1 => iv];
    (prop::collection::vec(t, 1..16), prop::collection::vec(any::<bool>(), 0..3), prop::collection::vec((0usize..4, 0usize..5), 0..2))
        .prop_map(|(prog, bools, index)| {
            let mut s = StateSpec::default();
            s.exec = vec![ItemSpec::List(prog)];
            s.bools = bools;
            s.index = index;
            s
        })
        .boxed()
}
fn judge_random(s: &StateSpec) -> CaseResult {
    let reg: BTreeSet<String> = crate::exec::registry_names().into_iter().collect();
    let r = lockstep("C06", s, 300, &reg, &|_, _| false)?;
    let combinators = r.instrs.iter().filter(|n| SINGLE.contains(&n.as_str())).count();
    Ok(CaseOut::new(r.steps >= 10 && combinators >= 3, s.digest()).class(if r.finished { "terminated" } else { "cut-at-300" }))
}

pub fn run(ctx: &Ctx) -> PropReport {
    let mut rep = PropReport::new(
        "(L/O) loop nests and combinator programs from a grammar {n INDEX.DEFINE EXEC.LOOP body, INT[v] INTVECTOR.LOOP body, CODE.QUOTE body n INDEX.DEFINE CODE.LOOP, EXEC.IF/CODE.IF/EXEC.K/EXEC.S/EXEC.DUP/CODE.DO/CODE.DO*, sub-lists, padding, numbered TICKs}, nesting <= 4, n in -2..6, |v| <= 5; (S) single steps of each combinator / INDEX instruction on arbitrary stacks; (R) random programs over the control-flow subset, <= 300 steps; non-trivial = (L) >= 2 ticks and loop nesting >= 1, (S) operands present and value compared, (R) >= 10 steps with >= 3 combinators compared; distinct = program / state digest",
        "(L/O) INV closed form: the tick log (marker, INDEX.CURRENT, top INTEGER) equals the sequence obtained by evaluating the loop nest directly, and at the end EXEC is empty, INDEX / INTVECTOR / CODE are what they were, INTEGER holds exactly the loop elements. (S) REF on the whole snapshot. (R) DIFF lock-step against the reference interpreter after every step.",
    );
    rep.assumptions.push("TICK is a harness instruction registered through InstructionSet::add".into());
    rep.assumptions.push("unspecified: EXEC.IF / CODE.IF without BOOLEAN or with too few code operands, LOOP without an INDEX, combinators with too few EXEC items".into());
    rep.push(run_sharded(ctx, "closed-form", ctx.tier.pick(80_000, 1_000_000), || el_strategy(true), judge_closed, |p| json!({"program": ItemSpec::List(render(p)).to_json(), "text": ItemSpec::List(render(p)).render()})));
    rep.push(run_sharded(ctx, "single-step", ctx.tier.pick(150_000, 1_500_000), single_strategy, |(n, s, _): &(String, StateSpec, bool)| judge_single(n, s), |(n, s, _)| json!({"instruction": n, "state": s.to_json(), "brief": s.brief()})));
    rep.push(run_sharded(ctx, "random-programs", ctx.tier.pick(60_000, 600_000), random_program, judge_random, |s| json!({"state": s.to_json(), "program": s.exec.iter().map(|x| x.render()).collect::<Vec<_>>().join(" ")})));
    for r in crate::props::incontext::run_all(ctx, ctx.tier.pick(40_000, 600_000)) {
        rep.push(r);
    }
    rep
}

/// closed-form replay needs the AST; the replay file stores the rendered program, which is run
/// against the tick oracle by re-deriving nothing: we re-run the generic checks that do not need
/// the AST (termination, clean-up) and the lock-step reference on the program.
pub fn replay(_ctx: &Ctx, sub: &str, case: &Value) -> Result<(), Fail> {
    let bad = || Fail::new("replay-format", "cannot decode C06 case");
    match sub {
        "single-step" => {
            let name = case.get("instruction").and_then(|x| x.as_str()).ok_or_else(bad)?;
            let s = StateSpec::from_json(case.get("state").ok_or_else(bad)?).ok_or_else(bad)?;
            judge_single(name, &s).map(|_| ())
        }
        "random-programs" => {
            let s = StateSpec::from_json(case.get("state").ok_or_else(bad)?).ok_or_else(bad)?;
            judge_random(&s).map(|_| ())
        }
        _ => {
            let prog = ItemSpec::from_json(case.get("program").ok_or_else(bad)?).ok_or_else(bad)?;
            let ast = parse_back(&prog).ok_or_else(|| Fail::new("replay-format", "program is not in the closed-form grammar"))?;
            judge_closed(&ast).map(|_| ())
        }
    }
}

/// inverse of `render` (so that closed-form replay files are self-contained)
fn parse_back(p: &ItemSpec) -> Option<Vec<El>> {
    let v = match p {
        ItemSpec::List(v) => v,
        _ => return None,
    };
    let blk = |x: &ItemSpec| parse_back(x);
    let is = |x: Option<&ItemSpec>, n: &str| matches!(x, Some(ItemSpec::Instr(m)) if m == n);
    let mut out = vec![];
    let mut i = 0;
    while i < v.len() {
        match &v[i] {
            ItemSpec::Int(k) if is(v.get(i + 1), "TICK") => {
                out.push(Tick(*k));
                i += 2;
            }
            ItemSpec::Int(n) if is(v.get(i + 1), "EXEC.Y") && is(v.get(i + 3), "INTEGER.POP") => {
                let body = match v.get(i + 2)? {
                    ItemSpec::List(b) if b.len() >= 8 => ItemSpec::List(b[..b.len() - 8].to_vec()),
                    _ => return None,
                };
                out.push(YLoop(*n, parse_back(&body)?));
                i += 4;
            }
            ItemSpec::Int(n) if is(v.get(i + 1), "INDEX.DEFINE") && is(v.get(i + 2), "EXEC.LOOP") => {
                out.push(ExecLoop(*n, blk(v.get(i + 3)?)?));
                i += 4;
            }
            ItemSpec::IVec(x) if is(v.get(i + 1), "INTVECTOR.LOOP") => {
                out.push(VecLoop(x.clone(), blk(v.get(i + 2)?)?));
                i += 3;
            }
            ItemSpec::Bool(c) if is(v.get(i + 1), "EXEC.IF") => {
                out.push(IfExec(*c, blk(v.get(i + 2)?)?, blk(v.get(i + 3)?)?));
                i += 4;
            }
            ItemSpec::Bool(true) if is(v.get(i + 1), "BOOLEAN.POP") => {
                out.push(Pad(3));
                i += 2;
            }
            ItemSpec::Float(_) if is(v.get(i + 1), "FLOAT.POP") => {
                out.push(Pad(1));
                i += 2;
            }
            ItemSpec::Instr(n) if n == "NOOP" => {
                out.push(Pad(0));
                i += 1;
            }
            ItemSpec::Instr(n) if n == "EXEC.K" => {
                out.push(K(blk(v.get(i + 1)?)?, blk(v.get(i + 2)?)?));
                i += 3;
            }
            ItemSpec::Instr(n) if n == "EXEC.S" => {
                out.push(S(blk(v.get(i + 1)?)?, blk(v.get(i + 2)?)?, blk(v.get(i + 3)?)?));
                i += 4;
            }
            ItemSpec::Instr(n) if n == "EXEC.DUP" => {
                out.push(Dup(blk(v.get(i + 1)?)?));
                i += 2;
            }
            ItemSpec::Instr(n) if n == "CODE.QUOTE" => {
                let a = v.get(i + 1)?;
                if is(v.get(i + 2), "CODE.DO") {
                    out.push(Do(blk(a)?));
                    i += 3;
                } else if is(v.get(i + 2), "CODE.DO*") {
                    out.push(DoStar(blk(a)?));
                    i += 3;
                } else if is(v.get(i + 2), "CODE.QUOTE") {
                    let b = v.get(i + 3)?;
                    if let (Some(ItemSpec::Bool(c)), true) = (v.get(i + 4), is(v.get(i + 5), "CODE.IF")) {
                        out.push(IfCode(*c, blk(a)?, blk(b)?));
                        i += 6;
                    } else {
                        return None;
                    }
                } else if let (Some(ItemSpec::Int(n)), true, true) = (v.get(i + 2), is(v.get(i + 3), "INDEX.DEFINE"), is(v.get(i + 4), "CODE.LOOP")) {
                    out.push(CodeLoop(*n, blk(a)?));
                    i += 5;
                } else {
                    return None;
                }
            }
            ItemSpec::List(x) => {
                if x.is_empty() {
                    out.push(Pad(2));
                } else if x.len() == 2 && is(x.get(0), "NOOP") && matches!(&x[1], ItemSpec::List(y) if y.len() == 1 && is(y.get(0), "CODE.NOOP")) {
                    out.push(Pad(4));
                } else {
                    out.push(Sub(parse_back(&v[i])?));
                }
                i += 1;
            }
            _ => return None,
        }
    }
    Some(out)
}

/// K1 probe: CODE.LOOP with n = 3 must run its body three times and leave no index behind.
pub fn probe_known(key: &str) -> Option<bool> {
    if key != "C06/CODE.LOOP/iteration-count-and-cleanup" {
        return None;
    }
    let mut failing = false;
    for n in 1..=4 {
        let prog = vec![CodeLoop(n, vec![Tick(1)])];
        if judge_closed(&prog).is_err() {
            failing = true;
        }
    }
    Some(failing)
}

/// crash-only execution of a journalled closed-form program
pub fn exec_journalled(v: &Value) -> Result<(), String> {
    let prog = v.get("program").and_then(ItemSpec::from_json).ok_or("bad program")?;
    let mut s = StateSpec::default();
    s.exec = vec![prog];
    s.index = vec![(2, 7)];
    s.ints = vec![4242];
    let (mut real, _) = s.build();
    guarded(|| {
        with_tick_machine(|m| {
            for n in 0..200_000 {
                if m.step(&mut real) {
                    break;
                }
                if n % 32 == 0 && crate::envelope::outside(&real) {
                    break;
                }
            }
        })
    })
    .map_err(|(l, m)| format!("panic at {}: {}", l, m))
}
