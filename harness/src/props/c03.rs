//! C03 — the parser accepts every string and builds exactly the tree the text describes.
//! C11 shares the token helpers of this module.

use crate::engine::*;
use crate::exec::with_machine;
use crate::gen;
use crate::spec::*;
use proptest::prelude::*;
use pushr::push::parser::PushParser;
use serde_json::{json, Value};

/// Parse `text` into the state built from `base`; returns the snapshot or the panic.
pub fn parse_into(base: &StateSpec, text: &str) -> Result<StateSpec, (String, String)> {
    let (mut st, _) = base.build();
    let r = guarded(|| with_machine(|m| PushParser::parse_program(&mut st, &m.iset, text)));
    r.map(|_| StateSpec::snapshot(&st))
}

/// registered = spelled exactly like one of the names the registry lists (the implementation's
/// own is_instruction() is what is being checked, so it is not asked)
pub fn is_registered(tok: &str) -> bool {
    thread_local! {
        static NAMES: std::collections::HashSet<String> = crate::exec::registry_names().into_iter().collect();
    }
    NAMES.with(|n| n.contains(tok))
}
/// A token the documented lexical rules classify as a NAME.
pub fn is_name_token(tok: &str) -> bool {
    !tok.is_empty()
        && !tok.chars().any(|c| c.is_whitespace())
        && tok != "("
        && tok != ")"
        && tok != "TRUE"
        && tok != "FALSE"
        && !tok.starts_with("INT[")
        && !tok.starts_with("FLOAT[")
        && !tok.starts_with("BOOL[")
        && tok.parse::<i32>().is_err()
        && tok.parse::<f32>().is_err()
        && !is_registered(tok)
}

pub fn name_token() -> BoxedStrategy<String> {
    prop_oneof![
        4 => prop::sample::select(gen::NAME_POOL.to_vec()).prop_map(|s| s.to_string()),
        4 => "[A-Za-z_][A-Za-z0-9_.*+<>=/%-]{0,8}",
        1 => "[a-zé∑λ][a-z0-9é∑]{0,4}",
        // spelled like a registered instruction up to letter case: a name
        1 => (prop::sample::select(crate::exec::registry_names()), 0u8..3).prop_map(|(n, how)| match how {
            0 => n.to_lowercase(),
            1 => n.chars().enumerate().map(|(i, c)| if i % 2 == 0 { c.to_ascii_lowercase() } else { c }).collect(),
            _ => {
                let mut c = n.chars();
                match c.next() {
                    Some(f) => f.to_string() + &c.as_str().to_lowercase(),
                    None => n,
                }
            }
        }),
        // long tokens (around and beyond 255 bytes), with a multi-byte character near byte 255
        1 => (236usize..262, 0usize..60, prop::sample::select(vec!["", "é", "∑", "𝛌"])).prop_map(|(k, m, mid)| format!("{}{}{}", "a".repeat(k), mid, "b".repeat(m))),
        1 => prop::sample::select(vec!["true", "false", "True", "INT", "FLOAT[", "e5", "-", "+", ".", "1e", "0x10", "1_000", "INTEGER", "INTEGER.", "integer.+", "()", "(a", "b)", "[1,2]", "1,2", "TRUE1"]).prop_map(|s| s.to_string()),
    ]
    .prop_filter("must be a name token", |s| is_name_token(s))
    .boxed()
}

/// A leaf: (text, expected item or None when the token must be dropped)
#[derive(Clone, Debug)]
pub struct Leaf {
    pub text: String,
    pub expect: Option<ItemSpec>,
    pub class: &'static str,
}
#[derive(Clone, Debug)]
pub enum Tok {
    Leaf(Leaf),
    List(Vec<Tok>),
}
impl Tok {
    pub fn expected(&self) -> Option<ItemSpec> {
        match self {
            Tok::Leaf(l) => l.expect.clone(),
            Tok::List(v) => Some(ItemSpec::List(v.iter().filter_map(|t| t.expected()).collect())),
        }
    }
    pub fn tokens(&self, out: &mut Vec<String>) {
        match self {
            Tok::Leaf(l) => out.push(l.text.clone()),
            Tok::List(v) => {
                out.push("(".into());
                for t in v {
                    t.tokens(out);
                }
                out.push(")".into());
            }
        }
    }
    pub fn classes(&self, out: &mut Vec<&'static str>) {
        match self {
            Tok::Leaf(l) => out.push(l.class),
            Tok::List(v) => {
                out.push("list");
                for t in v {
                    t.classes(out);
                }
            }
        }
    }
    pub fn depth(&self) -> usize {
        match self {
            Tok::Leaf(_) => 0,
            Tok::List(v) => 1 + v.iter().map(|t| t.depth()).max().unwrap_or(0),
        }
    }
}

fn int_leaf() -> BoxedStrategy<Leaf> {
    prop_oneof![
        2 => prop::sample::select(vec!["0", "-0", "+7", "2147483647", "-2147483648", "007", "+0", "-1", "000000000042", "+0002147483647", "-000000000000001", "+000000000000", "-0002147483648"]).prop_map(|s| s.to_string()),
        3 => gen::int_pool().prop_map(|v| v.to_string()),
    ]
    .prop_map(|text| {
        let v: i32 = text.parse().unwrap();
        Leaf { text, expect: Some(ItemSpec::Int(v)), class: "int" }
    })
    .boxed()
}
fn float_leaf() -> BoxedStrategy<Leaf> {
    prop_oneof![
        3 => prop::sample::select(vec!["1.5", "-2e3", ".5", "1.", "inf", "-inf", "NaN", "nan", "infinity", "2147483648", "-2147483649", "1e40", "1e-50", "0.0", "-0.0", "3.14159", "+1.25", "1E2", "99999999999"]).prop_map(|s| s.to_string()),
        2 => gen::float_pool().prop_map(|v| fmt_float(v)),
        1 => (-100000i32..100000).prop_map(|v| format!("{:.3}", v as f32 / 1000.0)),
    ]
    .prop_filter("not an integer", |t| t.parse::<i32>().is_err() && t.parse::<f32>().is_ok())
    .prop_map(|text| {
        let v: f32 = text.parse().unwrap();
        Leaf { text, expect: Some(ItemSpec::Float(v)), class: "float" }
    })
    .boxed()
}
fn vec_leaf() -> BoxedStrategy<Leaf> {
    let good_int = prop::collection::vec(gen::int_pool(), 1..=8).prop_map(|v| Leaf {
        text: format!("INT[{}]", v.iter().map(|x| x.to_string()).collect::<Vec<_>>().join(",")),
        expect: Some(ItemSpec::IVec(v)),
        class: "intvector",
    });
    let good_float = prop::collection::vec(prop_oneof![gen::float_tame(), gen::float_pool()], 1..=8).prop_map(|v| Leaf {
        text: format!("FLOAT[{}]", v.iter().map(|x| fmt_float(*x)).collect::<Vec<_>>().join(",")),
        expect: Some(ItemSpec::FVec(v)),
        class: "floatvector",
    });
    let good_bool = prop::collection::vec((any::<bool>(), any::<bool>()), 1..=8).prop_map(|v| Leaf {
        text: format!("BOOL[{}]", v.iter().map(|(b, word)| match (b, word) { (true, false) => "1", (false, false) => "0", (true, true) => "true", (false, true) => "false" }).collect::<Vec<_>>().join(",")),
        expect: Some(ItemSpec::BVec(v.iter().map(|(b, _)| *b).collect())),
        class: "boolvector",
    });
    // malformed: ends in ']' but contains a bad element -> dropped
    let bad = prop::sample::select(vec![
        "INT[1,x]", "INT[1.5]", "INT[1,,2]", "INT[2147483648]", "INT[,1]", "INT[1,]", "INT[a]", "BOOL[2]", "BOOL[1,TRUE]", "BOOL[yes]", "BOOL[1,,0]",
        // BOOL elements are exactly 1 / 0 / true / false: other spellings of a number are malformed
        "BOOL[+1]", "BOOL[01]", "BOOL[00,1]", "BOOL[1,+0]", "BOOL[1.0]", "BOOL[True]", "BOOL[T,F]", "BOOL[-0]", "BOOL[1,0,10]", "INT[1e3]", "INT[0x10]", "INT[1_000]", "INT[--1]", "FLOAT[1,2,]", "FLOAT[1e]",
        "FLOAT[1,x]", "FLOAT[1.5,]", "FLOAT[abc]", "FLOAT[1;2]", "INT[1]]", "INT[[1]", "BOOL[é]", "INT[∑]", "FLOAT[1,é]",
        // not closed by ']': malformed as well (dropped, never turned into another kind of item)
        "FLOAT[1.5,2.5", "INT[1,2", "BOOL[1", "INT[", "FLOAT[", "BOOL[", "INT[1,2x", "FLOAT[3.0,x", "BOOL[1,0)", "INT[7é",
    ])
    .prop_map(|s| Leaf { text: s.to_string(), expect: None, class: "malformed-vector" });
    prop_oneof![2 => good_int, 2 => good_float, 2 => good_bool, 3 => bad].boxed()
}
pub fn leaf() -> BoxedStrategy<Leaf> {
    let instr = prop::sample::select(crate::exec::registry_names()).prop_map(|n| Leaf { text: n.clone(), expect: Some(ItemSpec::Instr(n)), class: "instruction" });
    let name = name_token().prop_map(|n| Leaf { text: n.clone(), expect: Some(ItemSpec::Name(n)), class: "name" });
    let boolean = any::<bool>().prop_map(|b| Leaf { text: if b { "TRUE".into() } else { "FALSE".into() }, expect: Some(ItemSpec::Bool(b)), class: "bool" });
    prop_oneof![3 => int_leaf(), 3 => float_leaf(), 2 => boolean, 4 => instr, 4 => name, 3 => vec_leaf()].boxed()
}
pub fn tok_tree(depth: u32, size: u32) -> BoxedStrategy<Tok> {
    leaf().prop_map(Tok::Leaf).prop_recursive(depth, size, 5, |inner| prop::collection::vec(inner, 0..=5).prop_map(Tok::List)).boxed()
}
fn separator() -> BoxedStrategy<String> {
    prop_oneof![6 => Just(" ".to_string()), 1 => Just("  ".to_string()), 1 => Just("\t".to_string()), 1 => Just("\n".to_string()), 1 => Just(" \r\n ".to_string()), 1 => Just("\u{a0}".to_string()), 1 => Just("\u{2003}".to_string())].boxed()
}

#[derive(Clone, Debug)]
pub struct StructCase {
    pub toks: Vec<Tok>,
    pub seps: Vec<String>,
    pub lead: String,
}
impl StructCase {
    pub fn text(&self) -> String {
        let mut t = vec![];
        for x in &self.toks {
            x.tokens(&mut t);
        }
        let mut s = self.lead.clone();
        for (i, tok) in t.iter().enumerate() {
            s.push_str(tok);
            s.push_str(&self.seps[i % self.seps.len()]);
        }
        s
    }
}
fn struct_strategy(depth: u32, size: u32) -> BoxedStrategy<StructCase> {
    (prop::collection::vec(tok_tree(depth, size), 1..=4), prop::collection::vec(separator(), 1..8), prop_oneof![Just(String::new()), Just(" ".to_string()), Just("\n\t".to_string())])
        .prop_map(|(toks, seps, lead)| StructCase { toks, seps, lead })
        .boxed()
}

fn judge_struct(c: &StructCase) -> CaseResult {
    let text = c.text();
    let want: Vec<ItemSpec> = c.toks.iter().filter_map(|t| t.expected()).collect();
    let got = parse_into(&StateSpec::default(), &text).map_err(|(loc, msg)| Fail::new(format!("C03/structure/panic@{}", loc), format!("parse panicked at {}: {} | text {:?}", loc, msg, text)))?;
    if got.exec != want {
        let mut classes = vec![];
        for t in &c.toks {
            t.classes(&mut classes);
        }
        // signature: the first leaf class present that could be blamed, keeps root causes apart
        let blame = if classes.contains(&"malformed-vector") { "with-malformed-vector" } else { "well-formed" };
        return Err(Fail::new(
            format!("C03/structure/{}", blame),
            format!("text {:?} parsed to [{}] expected [{}]", text, got.exec.iter().map(|x| x.render()).collect::<Vec<_>>().join(" | "), want.iter().map(|x| x.render()).collect::<Vec<_>>().join(" | ")),
        ));
    }
    let mut other = got.clone();
    other.exec.clear();
    if other != StateSpec::default() {
        return Err(Fail::new("C03/structure/other-stack-touched", format!("text {:?}: {}", text, StateSpec::default().diff(&other).unwrap_or_default())));
    }
    // classification depends on the instruction set that is passed in: with an EMPTY registry the
    // same text must give the same tree with every instruction token classified as a name; then
    // once more with the full registry (same thread, so nothing may be remembered between calls)
    {
        fn as_names(t: &ItemSpec) -> ItemSpec {
            match t {
                ItemSpec::List(v) => ItemSpec::List(v.iter().map(as_names).collect()),
                ItemSpec::Instr(n) => ItemSpec::Name(n.clone()),
                x => x.clone(),
            }
        }
        let want_empty: Vec<ItemSpec> = want.iter().map(as_names).collect();
        let r = guarded(|| {
            let mut st = pushr::push::state::PushState::new();
            let empty = pushr::push::instructions::InstructionSet::new();
            PushParser::parse_program(&mut st, &empty, &text);
            StateSpec::snapshot(&st).exec
        })
        .map_err(|(loc, msg)| Fail::new(format!("C03/structure/panic@{}", loc), format!("parse with an empty registry panicked: {} | text {:?}", msg, text)))?;
        if r != want_empty {
            return Err(Fail::new("C03/structure/empty-registry", format!("text {:?} parsed with an EMPTY instruction set gives [{}] (instruction tokens must be names)", text, r.iter().map(|x| format!("{:?}", x)).collect::<Vec<_>>().join(" | ").chars().take(300).collect::<String>())));
        }
        let again = parse_into(&StateSpec::default(), &text).map_err(|(loc, msg)| Fail::new(format!("C03/structure/panic@{}", loc), msg))?;
        if again.exec != want {
            return Err(Fail::new("C03/structure/registry-remembered-between-calls", format!("text {:?}: parsing with the full registry after an empty-registry parse gives a different tree", text)));
        }
    }
    let mut classes = vec![];
    for t in &c.toks {
        t.classes(&mut classes);
    }
    let mut distinct: Vec<&str> = classes.iter().filter(|c| **c != "list").cloned().collect();
    distinct.sort();
    distinct.dedup();
    let mut out = CaseOut::new(classes.contains(&"list") && distinct.len() >= 3, hash_str(&text));
    for d in distinct {
        out = out.class(d);
    }
    let depth = c.toks.iter().map(|t| t.depth()).max().unwrap_or(0);
    Ok(out.class(format!("depth{}", depth.min(6))))
}

// ---- totality

fn soup() -> BoxedStrategy<String> {
    let piece = prop_oneof![
        6 => prop::sample::select(vec!["(", ")", "INT[", "FLOAT[", "BOOL[", "]", ",", "INT[1,2]", "BOOL[1", "FLOAT[]", "INT[]", "BOOL[]", "1", "-", "é", "∑", "😀", "TRUE", "FALSE", "1.5", "INT[é", "FLOAT[∑]", "INT", "BOOL[é]", "\0", "INT[1,2x", "FLOAT[1", "I", "IN", "INT[]]", "B", "BOOL", "FLOAT", "F"]).prop_map(|s| s.to_string()),
        2 => prop::sample::select(crate::exec::registry_names()),
        2 => Just(" ".to_string()),
        1 => Just("\t".to_string()),
        1 => Just("\n".to_string()),
        1 => "[ -~]{0,6}",
    ];
    prop::collection::vec(piece, 0..40).prop_map(|v| v.concat()).boxed()
}
/// printed programs with one token or byte deleted / duplicated / transposed
fn mutated(depth: u32) -> BoxedStrategy<String> {
    (struct_strategy(depth, 10), any::<u16>(), 0u8..6)
        .prop_map(|(c, pos, kind)| {
            let text = c.text();
            let mut toks: Vec<String> = text.split(' ').map(|s| s.to_string()).collect();
            let mut chars: Vec<char> = text.chars().collect();
            match kind {
                0 if !toks.is_empty() => {
                    toks.remove(gen::pick_index(pos, toks.len()));
                    toks.join(" ")
                }
                1 if !toks.is_empty() => {
                    let i = gen::pick_index(pos, toks.len());
                    let t = toks[i].clone();
                    toks.insert(i, t);
                    toks.join(" ")
                }
                2 if toks.len() >= 2 => {
                    let i = gen::pick_index(pos, toks.len() - 1);
                    toks.swap(i, i + 1);
                    toks.join(" ")
                }
                3 if !chars.is_empty() => {
                    chars.remove(gen::pick_index(pos, chars.len()));
                    chars.into_iter().collect()
                }
                4 if !chars.is_empty() => {
                    let i = gen::pick_index(pos, chars.len());
                    let ch = chars[i];
                    chars.insert(i, ch);
                    chars.into_iter().collect()
                }
                _ => {
                    // truncate at a char boundary
                    let i = gen::pick_index(pos, chars.len() + 1);
                    chars.truncate(i);
                    chars.into_iter().collect()
                }
            }
        })
        .boxed()
}

fn judge_total(base: &StateSpec, text: &str) -> CaseResult {
    let got = parse_into(base, text).map_err(|(loc, msg)| Fail::new(format!("C03/totality/panic@{}", loc), format!("parse panicked at {}: {} | text {:?}", loc, msg, text)))?;
    // every component except EXEC unchanged (graph ids: compare canonical)
    let mut a = got.clone().canonical();
    let mut b = base.clone();
    let new_exec = std::mem::take(&mut a.exec);
    let old_exec = std::mem::take(&mut b.exec);
    if a != b {
        return Err(Fail::new("C03/totality/other-stack-touched", format!("text {:?}: {}", text, b.diff(&a).unwrap_or_default())));
    }
    // old EXEC items stay, in order, above the new ones
    if new_exec.len() < old_exec.len() || new_exec[..old_exec.len()] != old_exec[..] {
        return Err(Fail::new("C03/totality/old-exec-items-disturbed", format!("text {:?}: EXEC before [{}] after [{}]", text, old_exec.iter().map(|x| x.render()).collect::<Vec<_>>().join(" | "), new_exec.iter().map(|x| x.render()).collect::<Vec<_>>().join(" | "))));
    }
    let interesting = text.contains('(') || text.contains(')') || text.contains("INT[") || text.contains("FLOAT[") || text.contains("BOOL[");
    let opens = text.split_whitespace().filter(|t| *t == "(").count() as i64;
    let closes = text.split_whitespace().filter(|t| *t == ")").count() as i64;
    let class = if opens == closes { "balanced-count" } else if closes > opens { "more-closing" } else { "more-opening" };
    Ok(CaseOut::new(interesting, hash_str(text)).class(class))
}

fn total_strategy(depth: u32) -> BoxedStrategy<(StateSpec, String)> {
    let mut p = gen::StateParams::full(vec!["NOOP".into(), "INTEGER.+".into()]);
    p.max_depth = 2;
    p.tree_depth = 2;
    p.tree_size = 5;
    let text = prop_oneof![2 => any::<String>(), 4 => soup(), 4 => mutated(depth), 1 => "\\PC{0,30}"];
    (prop_oneof![1 => Just(StateSpec::default()), 1 => gen::state(&p)], text).boxed()
}

pub fn run(ctx: &Ctx) -> PropReport {
    let mut rep = PropReport::new(
        "(T) arbitrary strings (any::<String>, token soup over parens / vector prefixes / multi-byte scalars / instruction names, printed programs with one token or character deleted, duplicated, transposed or truncated) parsed onto empty and non-empty states; (S) token trees whose leaves are generated by lexical class and rendered with random whitespace; non-trivial = (T) text contains a paren or a vector prefix, (S) >= 1 list and >= 3 leaf classes; distinct = hash of the text",
        "(T) INV: parse returns, every component except EXEC is unchanged, old EXEC items stay on top in order. (S) REF: the EXEC stack read back through the public API equals the expected tree: top-level tokens first-on-top, same nesting, leaves of the expected kind and value, malformed vector literals contribute nothing and do not disturb their neighbours.",
    );
    rep.assumptions.push("unspecified, generated in (T) only: empty vector literals INT[] FLOAT[] BOOL[] and the tree built from unbalanced input; prefix tokens that are not closed by ']' are malformed literals and must be dropped".into());
    rep.assumptions.push("nesting depth <= 8 (quick) / 64 (thorough) in the generators; the deep-nesting probe is separate".into());
    let d = ctx.tier.pick(4u32, 8u32);
    rep.push(run_sharded(ctx, "totality", ctx.tier.pick(400_000, 3_000_000), move || total_strategy(d), |(s, t): &(StateSpec, String)| judge_total(s, t), |(s, t)| json!({"text": t, "state": s.to_json()})));
    rep.push(run_sharded(ctx, "structure", ctx.tier.pick(150_000, 1_000_000), move || struct_strategy(d, ctx_size(d)), judge_struct, |c| json!({"text": c.text(), "expected": c.toks.iter().filter_map(|t| t.expected()).map(|x| x.to_json()).collect::<Vec<_>>()})));
    if ctx.tier == Tier::Thorough {
        rep.push(crate::fuzzrun::campaign(ctx, "C03", "parse_text", 4_000_000, 256));
    }
    // deep nesting: moderate depths must work; the depth at which the native stack overflows is a
    // listed known finding (probe)
    let mut deep = SubReport::new("deep-nesting");
    // structure of moderately deep programs (in-process): one item, `d` levels, d + 1 points,
    // with siblings placed at every level so that a token dropped or mis-attached shows
    for depth in [10usize, 40, 64, 65, 66, 100, 127, 128, 129, 200, 256, 257, 400, 700] {
        deep.evaluations += 1;
        let mut text = String::new();
        for i in 0..depth {
            text.push_str(&format!("( {} ", i));
        }
        text.push_str("core ");
        for i in 0..depth {
            text.push_str(&format!(") t{} ", i));
        }
        let got = match parse_into(&StateSpec::default(), &text) {
            Ok(g) => g,
            Err((l, m)) => {
                deep.fail(ctx, Fail::new(format!("C03/deep-structure/panic@{}", l), m), json!({"kind": "c03-deep-structure", "depth": depth}));
                continue;
            }
        };
        // expected: EXEC = [L0, t(depth-1)] ... built iteratively: level k = ( k  level(k+1)  t(depth-2-k)... )
        // top level: "( 0 ... ) t{depth-1}" : the list closed last is followed by t{depth-1}
        let mut expect_inner = vec![ItemSpec::Int(depth as i32 - 1), ItemSpec::name("core")];
        for k in (0..depth.saturating_sub(1)).rev() {
            // closing the list of level k+1 is followed by token t{depth-2-k ... }: list (k+1) closes as the (depth-1-k)-th ')', followed by t{depth-2-k}
            let after = ItemSpec::Name(format!("t{}", depth - 2 - k));
            expect_inner = vec![ItemSpec::Int(k as i32), ItemSpec::List(expect_inner), after];
        }
        let expect = if depth == 0 { vec![ItemSpec::name("core")] } else { vec![ItemSpec::List(expect_inner), ItemSpec::Name(format!("t{}", depth - 1))] };
        if got.exec != expect {
            let gd = got.exec.iter().map(|x| x.depth()).max().unwrap_or(0);
            let gp: usize = got.exec.iter().map(|x| x.points()).sum();
            deep.fail(
                ctx,
                Fail::new("C03/deep-structure/tree", format!("program nested {} levels deep: parsed tree has depth {} and {} points, expected depth {} and {} points", depth, gd, gp, depth, 3 * depth + 2)),
                json!({"kind": "c03-deep-structure", "depth": depth}),
            );
        } else {
            deep.nontrivial.insert(1000 + depth as u64);
        }
    }
    for depth in [300usize, 1000, 3000] {
        deep.evaluations += 1;
        match deep_nesting_aborts(depth) {
            Some(false) => {
                deep.nontrivial.insert(depth as u64);
            }
            Some(true) => deep.fail(ctx, Fail::new("C03/deep-nesting/abort", format!("parsing + printing + dropping a program nested {} levels deep aborts the process", depth)), json!({"kind": "c03-deep", "depth": depth})),
            None => deep.inconclusive.push("cannot run the deep-nesting probe".into()),
        }
    }
    deep.sample(json!({"kind": "c03-deep", "depth": 3000}));
    rep.push(deep);
    rep
}
fn ctx_size(d: u32) -> u32 {
    if d > 4 { 40 } else { 16 }
}

pub fn replay(_ctx: &Ctx, sub: &str, case: &Value) -> Result<(), Fail> {
    let bad = || Fail::new("replay-format", "cannot decode C03 case");
    let text = case.get("text").and_then(|x| x.as_str()).ok_or_else(bad)?;
    if sub == "structure" {
        let want: Vec<ItemSpec> = case.get("expected").and_then(|x| x.as_array()).ok_or_else(bad)?.iter().map(ItemSpec::from_json).collect::<Option<Vec<_>>>().ok_or_else(bad)?;
        let got = parse_into(&StateSpec::default(), text).map_err(|(loc, msg)| Fail::new(format!("C03/structure/panic@{}", loc), msg))?;
        if got.exec != want {
            return Err(Fail::new("C03/structure/tree", format!("parsed to [{}]", got.exec.iter().map(|x| x.render()).collect::<Vec<_>>().join(" | "))));
        }
        return Ok(());
    }
    let s = case.get("state").and_then(StateSpec::from_json).unwrap_or_default();
    judge_total(&s, text).map(|_| ())
}

// ---------------------------------------------------------------------------------------------
// deep nesting (K4): parse + print + drop of a program nested `depth` levels deep, executed in a
// fresh child process on its main thread (default stack); an abort there is a C03/C01 violation.

pub fn deep_text(depth: usize) -> String {
    let mut t = String::with_capacity(depth * 4 + 8);
    for _ in 0..depth {
        t.push_str("( ");
    }
    t.push_str("1 ");
    for _ in 0..depth {
        t.push_str(") ");
    }
    t
}
/// crash-only execution (called in the child through --exec-journal)
pub fn exec_deep(v: &Value) -> Result<(), String> {
    let depth = v.get("depth").and_then(|x| x.as_u64()).unwrap_or(1000) as usize;
    let text = deep_text(depth);
    let r = guarded(|| {
        let mut st = pushr::push::state::PushState::new();
        with_machine(|m| PushParser::parse_program(&mut st, &m.iset, &text));
        let stage = v.get("stage").and_then(|x| x.as_str()).unwrap_or("all");
        if stage == "parse-only" {
            // leak the state: neither printed nor dropped
            std::mem::forget(st);
            return 0;
        }
        let printed = st.exec_stack.to_string();
        let n = printed.len();
        drop(st);
        n
    });
    r.map(|_| ()).map_err(|(l, m)| format!("panic at {}: {}", l, m))
}
/// Some(true): the child aborts (stack overflow) at this depth
pub fn deep_nesting_aborts(depth: usize) -> Option<bool> {
    let dir = crate::supervise::work_dir();
    let path = format!("{}/c03-deep-{}.json", dir, std::process::id());
    std::fs::write(&path, serde_json::to_string(&json!({"kind": "c03-deep", "depth": depth})).ok()?).ok()?;
    let o = crate::supervise::run_child_public(&["C03".to_string(), "--exec-journal".to_string(), path.clone()], 120);
    let _ = std::fs::remove_file(&path);
    Some(o.signal.is_some())
}
pub fn probe_known(key: &str) -> Option<bool> {
    if key == "C03/deep-nesting/abort" {
        return deep_nesting_aborts(19_000);
    }
    None
}
