//! C05 — stack-manipulation instructions act uniformly on every stack and conserve items.

use crate::engine::*;
use crate::gen;
use crate::refmodel::{get_stack, set_stack, NINE};
use crate::single::*;
use crate::spec::*;
use proptest::prelude::*;
use serde_json::{json, Value};

const OPS: [&str; 9] = ["DUP", "POP", "SWAP", "ROT", "YANK", "YANKDUP", "SHOVE", "FLUSH", "STACKDEPTH"];

fn registered(t: &str, op: &str) -> bool {
    crate::exec::registry_names().iter().any(|n| n == &format!("{}.{}", t, op))
}

/// element number `i` of type `t`, with value variation `salt` (distinct labels where possible)
fn label(t: &str, i: usize, salt: u64) -> ItemSpec {
    let k = (i as i32 + 1) * 10 + (salt % 7) as i32;
    match t {
        "BOOLEAN" => ItemSpec::Bool(((salt >> (i % 64)) & 1) == 1),
        "INTEGER" => ItemSpec::Int(k * 100),
        "FLOAT" => ItemSpec::Float(k as f32 + 0.25),
        "NAME" => ItemSpec::Name(format!("n{}", k)),
        "CODE" | "EXEC" => {
            if salt % 5 == 0 && i < 2 {
                // larger than max_points_in_program: stack manipulation does not depend on item size
                ItemSpec::List((0..(110 + i as i32)).map(|x| ItemSpec::Int(x + k)).collect())
            } else if i % 3 == 0 {
                ItemSpec::List(vec![ItemSpec::Int(k), ItemSpec::Name(format!("m{}", i))])
            } else if i % 3 == 1 {
                ItemSpec::Int(k)
            } else {
                ItemSpec::Name(format!("c{}", k))
            }
        }
        "BOOLVECTOR" => ItemSpec::BVec((0..=(i % 9)).map(|j| ((salt >> ((i + j) % 64)) & 1) == 1).collect()),
        "INTVECTOR" => ItemSpec::IVec(vec![k; (i % 3) + 1]),
        "FLOATVECTOR" => ItemSpec::FVec(vec![k as f32 + 0.5; (i % 2) + 1]),
        _ => unreachable!(),
    }
}

fn multiset(v: &[ItemSpec]) -> Vec<String> {
    let mut m: Vec<String> = v.iter().map(|x| x.render()).collect();
    m.sort();
    m
}

/// Judge one (type, op, state) case: REF + conservation INV.
fn judge(t: &str, op: &str, s: &StateSpec) -> CaseResult {
    let name = format!("{}.{}", t, op);
    let before_stack = get_stack(s, t);
    let j = judge_instr("C05", &name, s, true)?;
    // conservation (independent of the position map): multiset relation per op class
    let after_stack = get_stack(&j.after, t);
    let idx_consumed = matches!(op, "YANK" | "YANKDUP" | "SHOVE") && !s.ints.is_empty();
    let mut b = before_stack.clone();
    if t == "INTEGER" && idx_consumed {
        b.remove(0);
    }
    let (mb, ma) = (multiset(&b), multiset(&after_stack));
    let ok = match op {
        "YANK" | "SHOVE" | "SWAP" | "ROT" => mb == ma,
        "DUP" | "YANKDUP" => {
            if matches!(op, "YANKDUP") && s.ints.is_empty() {
                mb == ma
            } else if b.is_empty() {
                ma.is_empty()
            } else {
                // exactly one extra copy of an existing item
                ma.len() == mb.len() + 1 && {
                    let mut rest = ma.clone();
                    for x in &mb {
                        if let Some(p) = rest.iter().position(|y| y == x) {
                            rest.remove(p);
                        }
                    }
                    rest.len() == 1 && mb.contains(&rest[0])
                }
            }
        }
        "POP" => ma.len() + (if b.is_empty() { 0 } else { 1 }) == mb.len(),
        "FLUSH" => ma.is_empty(),
        "STACKDEPTH" => {
            if t == "INTEGER" {
                ma.len() == mb.len() + 1
            } else {
                mb == ma
            }
        }
        _ => true,
    };
    if !ok {
        return Err(Fail::new(format!("C05/{}/conservation", name), format!("{}: items before {:?}, after {:?}", name, mb, ma)));
    }
    let depth = b.len();
    let identity = before_stack == after_stack;
    let mut h = Fnv::new();
    h.str(&name);
    h.u64(s.digest());
    Ok(CaseOut::new(depth >= 2 && !identity, h.0).class(format!("{}", op)))
}

fn case_json(t: &str, op: &str, s: &StateSpec) -> Value {
    json!({"type": t, "op": op, "state": s.to_json(), "brief": s.brief()})
}

/// The exhaustive grid: 9 types x ops x depth 0..8 x index set, `draws` value variations each.
fn grid(ctx: &Ctx, draws: u64) -> SubReport {
    let mut cases: Vec<(String, String, usize, Option<i32>)> = vec![];
    for t in NINE.iter() {
        for op in OPS.iter() {
            if !registered(t, op) {
                continue;
            }
            // depths 0..8 exhaustively; plus deep stacks around 1000 items (the generic container
            // is documented without a capacity) with fewer value variations
            for depth in (0..=8usize).chain([999usize, 1000, 1001, 1030]) {
                if matches!(*op, "YANK" | "YANKDUP" | "SHOVE") {
                    let d = depth as i32;
                    let mut idx = vec![i32::MIN, -d - 1, -1, 0, 1, d - 2, d - 1, d, d + 1, i32::MAX, 3];
                    idx.sort();
                    idx.dedup();
                    for i in idx {
                        cases.push((t.to_string(), op.to_string(), depth, Some(i)));
                    }
                    cases.push((t.to_string(), op.to_string(), depth, None));
                } else {
                    cases.push((t.to_string(), op.to_string(), depth, None));
                }
            }
        }
    }
    let n = cases.len() as u64;
    let mut rep = par_map(ctx, "grid", n, |ci, rep| {
        let (t, op, depth, idx) = cases[ci as usize].clone();
        let draws = if depth > 8 { 1 } else { draws };
        for salt in 0..draws {
            let salt = salt.wrapping_mul(0x9E3779B97F4A7C15).wrapping_add(ctx.seed).wrapping_add(ci * 31);
            let mut s = StateSpec::default();
            // bystanders on two other stacks, and a second INTEGER under the index
            s.names = vec!["by".into()];
            s.floats = vec![1.5];
            let elems: Vec<ItemSpec> = (0..depth).map(|i| label(&t, i, salt)).collect();
            set_stack(&mut s, &t, elems);
            if t != "NAME" && t != "FLOAT" {
                // keep the bystanders
            } else if t == "NAME" {
                s.bools = vec![true];
            } else {
                s.bools = vec![false];
            }
            if t != "INTEGER" {
                s.ints = vec![777];
            }
            if let Some(i) = idx {
                s.ints.insert(0, i);
            } else if matches!(op.as_str(), "YANK" | "YANKDUP" | "SHOVE") {
                // index missing entirely
                if t != "INTEGER" {
                    s.ints.clear();
                } else {
                    continue; // for INTEGER the top element is the index by definition
                }
            }
            rep.evaluations += 1;
            match judge(&t, &op, &s) {
                Ok(o) => {
                    if o.nontrivial {
                        rep.nontrivial_extra += 1;
                    }
                    if ci % 97 == 0 && salt % 5 == 0 {
                        rep.sample(case_json(&t, &op, &s));
                    }
                }
                Err(f) => rep.fail(ctx, f, case_json(&t, &op, &s)),
            }
        }
    });
    rep.exhaustive = true;
    rep.notes.push(format!("grid of {} (type, op, depth 0..8, index in {{MIN,-d-1,-1,0,1,d-2,d-1,d,d+1,MAX,3,missing}}) cells x {} value variations; the grid itself is enumerated completely", n, draws));
    rep
}

fn random_strategy() -> BoxedStrategy<(String, String, StateSpec)> {
    let mut p = gen::StateParams::full(vec!["NOOP".into(), "INTEGER.+".into()]);
    p.max_depth = 8;
    p.tree_depth = 2;
    p.tree_size = 5;
    p.graphs = false;
    let pairs: Vec<(String, String)> = NINE
        .iter()
        .flat_map(|t| OPS.iter().map(move |o| (t.to_string(), o.to_string())))
        .filter(|(t, o)| registered(t, o))
        .collect();
    (prop::sample::select(pairs), gen::state(&p), gen::index_around(6), any::<bool>())
        .prop_map(|((t, o), mut s, idx, put)| {
            if put && matches!(o.as_str(), "YANK" | "YANKDUP" | "SHOVE") {
                // an index relative to the depth of the target stack
                let d = get_stack(&s, &t).len() as i32;
                let i = if (idx as i64).abs() <= 14 { idx - 6 + d } else { idx };
                s.ints.insert(0, i);
            }
            (t, o, s)
        })
        .boxed()
}

pub fn run(ctx: &Ctx) -> PropReport {
    let mut rep = PropReport::new(
        "nine stack types x {DUP,POP,SWAP,ROT,YANK,YANKDUP,SHOVE,FLUSH,STACKDEPTH} x depth x index; non-trivial = target stack depth >= 2 and the operation is not the identity on that case; distinct = (instruction, state) digest (grid: distinct by construction)",
        "REF: one generic position map (clamp c = max(min(depth-1, index), 0); YANK moves position c to 0; SHOVE moves 0 to c; YANKDUP copies c) applied to every type and compared on the whole snapshot + INV multiset conservation per op class. A type that deviates from the shared map is reported under its own instruction name.",
    );
    rep.push(grid(ctx, ctx.tier.pick(60, 400)));
    rep.push(run_sharded(ctx, "random", ctx.tier.pick(400_000, 3_000_000), random_strategy, |(t, o, s): &(String, String, StateSpec)| judge(t, o, s), |(t, o, s)| case_json(t, o, s)));
    for r in crate::props::incontext::run_all(ctx, ctx.tier.pick(40_000, 600_000)) {
        rep.push(r);
    }
    rep
}

pub fn replay(_ctx: &Ctx, _sub: &str, case: &Value) -> Result<(), Fail> {
    let bad = || Fail::new("replay-format", "cannot decode C05 case");
    let t = case.get("type").and_then(|x| x.as_str()).ok_or_else(bad)?;
    let op = case.get("op").and_then(|x| x.as_str()).ok_or_else(bad)?;
    let s = StateSpec::from_json(case.get("state").ok_or_else(bad)?).ok_or_else(bad)?;
    judge(t, op, &s).map(|_| ())
}
