//! C01 — any Push program executes without crashing the host.
//!
//! INV oracle: every call returns (no unwind; aborts and hangs are caught by the supervising
//! parent process through the journal). Run under the dev profile (overflow checks on).

use crate::engine::*;
use crate::envelope;
use crate::exec::{with_machine, Machine};
use crate::footprint::{self, Footprint};
use crate::gen;
use crate::lockstep::item_label;
use crate::props::c02::rand_free_names;
use crate::single::*;
use crate::spec::*;
use proptest::prelude::*;
use pushr::push::interpreter::PushInterpreter;
use pushr::push::item::Item;
use pushr::push::random::CodeGenerator;
use pushr::push::state::PushState;
use serde_json::{json, Value};

const STACKLIKE: [&str; 13] = ["BOOLEAN", "INTEGER", "FLOAT", "NAME", "CODE", "EXEC", "BOOLVECTOR", "INTVECTOR", "FLOATVECTOR", "INDEX", "INPUT", "OUTPUT", "GRAPH"];

fn params(names: Vec<String>) -> gen::StateParams {
    let mut p = gen::StateParams::full(names);
    p.max_depth = 6;
    p.tree_depth = 3;
    p.tree_size = 10;
    p
}

fn depth_real(st: &PushState, c: &str) -> usize {
    match c {
        "BOOLEAN" => st.bool_stack.size(),
        "INTEGER" => st.int_stack.size(),
        "FLOAT" => st.float_stack.size(),
        "NAME" => st.name_stack.size(),
        "CODE" => st.code_stack.size(),
        "EXEC" => st.exec_stack.size(),
        "BOOLVECTOR" => st.bool_vector_stack.size(),
        "INTVECTOR" => st.int_vector_stack.size(),
        "FLOATVECTOR" => st.float_vector_stack.size(),
        "INDEX" => st.index_stack.size(),
        "INPUT" => st.input_stack.size(),
        "OUTPUT" => st.output_stack.size(),
        "GRAPH" => st.graph_stack.size(),
        _ => 0,
    }
}
fn needs_met_real(fp: &Footprint, st: &PushState) -> bool {
    fp.need.iter().all(|(c, n)| depth_real(st, c) >= *n)
}

// ---------------------------------------------------------------------------------------------
// (A) single-instruction sweep

#[derive(Clone, Debug)]
pub struct SweepCase {
    pub name: String,
    pub state: StateSpec,
    /// overwrite the top INTEGERs with ids of live graph nodes after building
    pub live_ids: u8,
}

fn set_depth(s: &mut StateSpec, c: &'static str, d: usize, sup: &Supply) {
    // truncate or top up component c to exactly d items (top up reuses single::top_up)
    let fp = Footprint { name: String::new(), need: vec![(c, d)], shrink: vec![], write: vec![], side: vec![], size_at: None, owner: String::new(), note: String::new() };
    top_up(s, &fp, sup);
    match c {
        "BOOLEAN" => s.bools.truncate(d),
        "INTEGER" => s.ints.truncate(d),
        "FLOAT" => s.floats.truncate(d),
        "NAME" => s.names.truncate(d),
        "CODE" => s.code.truncate(d),
        "EXEC" => s.exec.truncate(d),
        "BOOLVECTOR" => s.bvecs.truncate(d),
        "INTVECTOR" => s.ivecs.truncate(d),
        "FLOATVECTOR" => s.fvecs.truncate(d),
        "INDEX" => s.index.truncate(d),
        "INPUT" => s.input.truncate(d),
        "OUTPUT" => s.output.truncate(d),
        "GRAPH" => s.graphs.truncate(d),
        _ => {}
    }
}

fn sweep_strategy(names: Vec<String>) -> BoxedStrategy<SweepCase> {
    let p = params(names.clone());
    (
        prop::sample::select(names),
        gen::state(&p),
        supply(&p.kinds),
        prop::collection::vec(0u8..6, 6),
        0u8..8,
        any::<u16>(),
        prop::sample::select(vec![-1i32, 0, 1]),
        0u8..4,
    )
        .prop_map(|(name, mut s, sup, depth_choice, idx_mode, pick, delta, live)| {
            if let Some(fp) = footprint::get(&name) {
                for (k, (c, need)) in fp.need.iter().enumerate() {
                    let d = match depth_choice[k % depth_choice.len()] {
                        0 => 0,
                        1 => 1,
                        2 => need.saturating_sub(1),
                        3 => *need,
                        4 => need + 2,
                        _ => 6,
                    };
                    // three of six choices leave all operands present
                    set_depth(&mut s, c, d.max(if depth_choice[(k + 1) % depth_choice.len()] % 2 == 0 { *need } else { 0 }), &sup);
                }
                // index-like INTEGER operands relative to a length in the state
                if idx_mode < 4 && !s.ints.is_empty() && fp.need.iter().any(|(c, _)| *c == "INTEGER") {
                    let mut lens: Vec<i64> = vec![];
                    lens.extend(s.bvecs.first().map(|v| v.len() as i64));
                    lens.extend(s.ivecs.first().map(|v| v.len() as i64));
                    lens.extend(s.fvecs.first().map(|v| v.len() as i64));
                    lens.extend(s.code.first().map(|v| v.points() as i64));
                    lens.extend(s.code.first().map(|v| if let ItemSpec::List(l) = v { l.len() as i64 } else { 1 }));
                    for c in STACKLIKE.iter() {
                        lens.push(s.depth_of(c) as i64);
                    }
                    let l = lens[gen::pick_index(pick, lens.len())];
                    let v = match idx_mode {
                        0 => l - 1,
                        1 => l,
                        2 => l + 1,
                        _ => -l,
                    } + delta as i64 * 0;
                    s.ints[0] = v as i32;
                }
            }
            SweepCase { name, state: s, live_ids: live }
        })
        .boxed()
}

fn apply_live_ids(st: &mut PushState, idmaps: &[Vec<usize>], how: u8) {
    if how == 0 {
        return;
    }
    let live: Vec<i32> = idmaps.iter().flatten().map(|x| *x as i32).collect();
    if live.is_empty() {
        return;
    }
    let n = st.int_stack.size().min(how as usize + 1);
    for i in 0..n {
        if let Some(v) = st.int_stack.get_mut(i) {
            *v = live[(i * 7 + how as usize) % live.len()];
        }
    }
}

fn judge_sweep(c: &SweepCase) -> CaseResult {
    let mut s = c.state.clone();
    let clamped = envelope::clamp_sizes_spec(&mut s, &c.name);
    crate::supervise::journal_value(&json!({"kind": "instr", "property": "C01", "instruction": c.name, "state": s.to_json(), "live_ids": c.live_ids}));
    let (mut st, idmaps) = s.build();
    apply_live_ids(&mut st, &idmaps, c.live_ids);
    let fp = footprint::get(&c.name);
    let met = fp.as_ref().map(|f| needs_met_real(f, &st)).unwrap_or(true);
    let size_before = st.size();
    let r = guarded(|| with_machine(|m| m.step_named(&mut st, &c.name)));
    if let Err((loc, msg)) = r {
        crate::exec::with_machine(|_| ());
        return Err(Fail::new(format!("C01/{}/panic@{}", c.name, loc), format!("{} panicked at {}: {} | state before: {}", c.name, loc, msg, s.brief())));
    }
    let changed = st.size() != size_before;
    let mut h = Fnv::new();
    h.str(&c.name);
    h.u64(s.digest());
    h.u8(c.live_ids);
    let mut o = CaseOut::new(met || changed, h.0);
    if clamped {
        o = o.class("size-operand-clamped");
    }
    if !met {
        o = o.class("operand-missing");
    }
    Ok(o)
}

// ---------------------------------------------------------------------------------------------
// (B) programs

#[derive(Clone, Debug)]
pub struct ProgCase {
    pub state: StateSpec,
}

fn config_strategy() -> BoxedStrategy<ConfigSpec> {
    (
        (-100i32..100, 1i32..100),
        (-100.0f32..100.0, 0.001f32..50.0),
        prop::sample::select(vec![-1i32, 0, 1, 5, 50, 400]),
        prop::sample::select(vec![0usize, 1, 5, 500]),
        prop::sample::select(vec![0.0f32, 0.001, 0.5, 1.0]),
        prop::sample::select(vec![-25i32, 0, 1, 2, 3, 25, 100]),
    )
        .prop_map(|((imin, iw), (fmin, fw), limit, cap, pnew, maxp)| ConfigSpec {
            min_random_integer: imin,
            max_random_integer: imin + iw,
            min_random_float: fmin,
            max_random_float: fmin + fw,
            eval_push_limit: limit,
            eval_time_limit: 5000,
            growth_cap: cap,
            new_erc_name_probability: pnew,
            max_points_in_random_expressions: maxp,
            max_points_in_program: 100,
        })
        .boxed()
}

fn prog_strategy(names: Vec<String>, depth: u32, size: u32) -> BoxedStrategy<ProgCase> {
    let mut p = params(names.clone());
    p.max_depth = 4;
    let kinds = gen::AtomKinds::all(names);
    (gen::state(&p), gen::program(&kinds, depth, size), config_strategy(), any::<bool>())
        .prop_map(|(mut s, prog, cfg, keep_exec)| {
            if keep_exec {
                s.exec.insert(0, prog);
            } else {
                s.exec = vec![prog];
            }
            s.config = cfg;
            ProgCase { state: s }
        })
        .boxed()
}

pub struct StepStats {
    pub steps: usize,
    pub effective: usize,
    pub clamped: bool,
    pub left_envelope: bool,
    pub finished: bool,
}

/// envelope-monitored stepping; Err = (label of the item being executed, location, message)
pub fn step_program(st: &mut PushState, m: &mut Machine, max_steps: usize) -> Result<StepStats, (String, String, String)> {
    let mut stats = StepStats { steps: 0, effective: 0, clamped: false, left_envelope: false, finished: false };
    for _ in 0..max_steps {
        let label = match st.exec_stack.get(0) {
            Some(Item::InstructionMeta { name }) => name.clone(),
            Some(Item::List { .. }) => "<list>".to_string(),
            Some(Item::Identifier { .. }) => "<name>".to_string(),
            Some(_) => "<literal>".to_string(),
            None => "<empty>".to_string(),
        };
        if envelope::clamp_sizes(st) {
            stats.clamped = true;
        }
        let met = footprint::get(&label).map(|f| needs_met_real(&f, st) && !f.need.is_empty());
        let r = guarded(|| m.step(st));
        match r {
            Err((loc, msg)) => return Err((label, loc, msg)),
            Ok(true) => {
                stats.finished = true;
                break;
            }
            Ok(false) => {}
        }
        stats.steps += 1;
        if met == Some(true) {
            stats.effective += 1;
        }
        if envelope::outside(st) {
            stats.left_envelope = true;
            break;
        }
    }
    Ok(stats)
}

fn program_is_deterministic(s: &StateSpec, allowed: &std::collections::BTreeSet<String>) -> bool {
    let ok = |t: &ItemSpec| t.preorder().iter().all(|x| match x {
        ItemSpec::Instr(n) => allowed.contains(n),
        _ => true,
    });
    s.exec.iter().all(ok) && s.code.iter().all(ok) && s.bindings.values().all(ok)
}

fn judge_program(c: &ProgCase) -> CaseResult {
    let s = &c.state;
    crate::supervise::journal_program("C01", s, 400, "step");
    let (mut st, _) = s.build();
    let stats = with_machine(|m| step_program(&mut st, m, 400));
    let stats = match stats {
        Ok(x) => x,
        Err((label, loc, msg)) => {
            return Err(Fail::new(
                format!("C01/{}/panic@{}", label, loc),
                format!("single-stepping panicked in {} at {}: {} | program [{}]", label, loc, msg, s.exec.iter().map(|x| x.render()).collect::<Vec<_>>().join(" | ")),
            ))
        }
    };
    let mut o = CaseOut::new(stats.effective >= 5, s.digest());
    if stats.left_envelope {
        o = o.class("left-envelope");
    }
    if stats.clamped {
        o = o.class("size-operand-clamped");
    }
    // run(): only deterministic programs that stayed inside the envelope without clamping
    let allowed: std::collections::BTreeSet<String> = rand_free_names().into_iter().collect();
    if !stats.left_envelope && !stats.clamped && program_is_deterministic(s, &allowed) {
        let mut s2 = s.clone();
        s2.config.eval_push_limit = s2.config.eval_push_limit.min(398);
        // run() copies EXEC onto CODE first, which changes what CODE.* / LIST.* see: repeat the
        // monitored dry run on that state before handing the program to the uninterruptible run()
        let mut s3 = s2.clone();
        let mut code = s3.exec.clone();
        code.extend(s3.code.iter().cloned());
        s3.code = code;
        crate::supervise::journal_program("C01", &s3, 400, "step");
        let (mut st3, _) = s3.build();
        let dry = with_machine(|m| step_program(&mut st3, m, 401));
        match dry {
            Err((label, loc, msg)) => {
                return Err(Fail::new(format!("C01/{}/panic@{}", label, loc), format!("single-stepping (after the copy onto CODE) panicked in {} at {}: {}", label, loc, msg)));
            }
            Ok(d) => {
                if d.left_envelope || d.clamped {
                    return Ok(o.class("run()-skipped-outside-envelope"));
                }
            }
        }
        crate::supervise::journal_program("C01", &s2, 0, "run");
        let (mut st2, _) = s2.build();
        let r = guarded(|| with_machine(|m| PushInterpreter::run(&mut st2, &mut m.iset)));
        if let Err((loc, msg)) = r {
            return Err(Fail::new(format!("C01/run/panic@{}", loc), format!("run panicked at {}: {} | program [{}]", loc, msg, s.exec.iter().map(|x| x.render()).collect::<Vec<_>>().join(" | "))));
        }
        o = o.class("also-run()");
    }
    let _ = item_label;
    Ok(o)
}

/// programs from pushr's own random code generator (full registry)
fn generated_programs(ctx: &Ctx, n: u64) -> SubReport {
    let mut rep = par_map(ctx, "random-code-generator-programs", n, |i, rep| {
        let size = 1 + ((i * 37) % 300) as usize;
        let item = guarded(|| {
            with_machine(|m| {
                let mut s = StateSpec::default();
                if i % 2 == 0 {
                    s.bindings.insert("foo".into(), ItemSpec::Int(3));
                }
                let (st, _) = s.build();
                CodeGenerator::random_code_with_size(&st, &m.icache, size)
            })
        });
        rep.evaluations += 1;
        let item = match item {
            Ok(i) => i,
            Err((loc, msg)) => {
                rep.fail(ctx, Fail::new(format!("C01/random_code_with_size/panic@{}", loc), msg), json!({"size": size}));
                return;
            }
        };
        let mut s = StateSpec::default();
        s.exec = vec![ItemSpec::from_item(&item)];
        s.ints = vec![3, 2, 1];
        s.floats = vec![0.5, 2.0];
        s.bools = vec![true, false];
        let case = ProgCase { state: s };
        match judge_program(&case) {
            Ok(o) => {
                rep.record_only(&o);
                if i % 401 == 0 {
                    rep.sample(json!({"program": case.state.exec[0].render()}));
                }
            }
            Err(f) => rep.fail(ctx, f, json!({"state": case.state.to_json(), "program": case.state.exec[0].render()})),
        }
    });
    rep.notes.push("program source: CodeGenerator::random_code_with_size(full instruction cache), sizes 1..300; the generated item is stored in the replay file".into());
    rep
}

/// EXEC.CMD pointed at the harmless target /bin/true (each costs the built-in 1 s sleep)
fn exec_cmd_cases(ctx: &Ctx, n: usize) -> SubReport {
    let mut rep = SubReport::new("exec-cmd-harmless-target");
    for k in 0..n {
        let mut s = StateSpec::default();
        let nargs = k % 3;
        let mut names: Vec<String> = (0..nargs).map(|i| format!("arg{}", i)).collect();
        names.push("/bin/true".into());
        names.push("bystander".into());
        s.names = names;
        s.ints = vec![nargs as i32, 99];
        let case = SweepCase { name: "EXEC.CMD".into(), state: s.clone(), live_ids: 0 };
        rep.evaluations += 1;
        match judge_sweep(&case) {
            Ok(_) => {
                rep.nontrivial.insert(k as u64);
                rep.sample(json!({"instruction": "EXEC.CMD", "brief": s.brief()}));
            }
            Err(f) => rep.fail(ctx, f, json!({"instruction": "EXEC.CMD", "state": s.to_json(), "live_ids": 0})),
        }
    }
    rep
}

/// GRAPH.* instruction histories (the C18 generator): graphs on the stack descend from one
/// another (GRAPH.DUP then mutation), so they share node ids - a shape the independent graphs of
/// the sweep states never have. Crash-only.
fn graph_histories(ctx: &Ctx, n: u64) -> SubReport {
    run_sharded(
        ctx,
        "graph-histories",
        n,
        crate::props::c18::instr_history,
        |g| match crate::props::c18::run_history_crash_only("C01", g) {
            Ok((steps, diffed)) => {
                let mut h = Fnv::new();
                h.str(&format!("{:?}", g));
                Ok(CaseOut::new(diffed && steps >= 5, h.0).class(if diffed { "print-diff-of-related-graphs" } else { "no-diff-of-related-graphs" }))
            }
            Err((name, loc, msg)) => Err(Fail::new(format!("C01/{}/panic@{}", name, loc), format!("{} panicked at {}: {}", name, loc, msg))),
        },
        |g| json!({"groups": format!("{:?}", g)}),
    )
}

/// One segment of the life of a long-lived state: the host queues messages, takes some OUTPUT
/// messages away, then a program of IO instructions runs.
#[derive(Debug, Clone)]
pub struct IoSegment {
    pub push_in: Vec<MsgSpec>,
    pub force: bool,
    pub pop_out: u8,
    pub pop_in: u8,
    pub program: Vec<ItemSpec>,
}

fn io_history_strategy() -> BoxedStrategy<Vec<IoSegment>> {
    let names: Vec<String> = crate::exec::registry_names().into_iter().filter(|n| n.starts_with("INPUT.") || n.starts_with("OUTPUT.")).collect();
    let tok = prop_oneof![
        12 => prop::sample::select(names).prop_map(ItemSpec::Instr),
        3 => gen::index_around(5).prop_map(ItemSpec::Int),
        2 => gen::bvec(6).prop_map(ItemSpec::BVec),
        2 => gen::ivec_small(4).prop_map(ItemSpec::IVec),
    ];
    let seg = (prop::collection::vec(gen::msg(), 0..=12), any::<bool>(), 0u8..4, 0u8..4, prop::collection::vec(tok, 0..16))
        .prop_map(|(push_in, force, pop_out, pop_in, program)| IoSegment { push_in, force, pop_out, pop_in, program });
    prop::collection::vec(seg, 2..7).boxed()
}

fn msg_json(m: &MsgSpec) -> Value {
    json!({"header": m.header, "body": m.body})
}

fn io_history_json(h: &Vec<IoSegment>) -> Value {
    json!({"segments": h.iter().map(|g| json!({
        "push_in": g.push_in.iter().map(msg_json).collect::<Vec<_>>(), "force": g.force, "pop_out": g.pop_out, "pop_in": g.pop_in,
        "program": g.program.iter().map(|x| x.to_json()).collect::<Vec<_>>(),
        "text": g.program.iter().map(|x| x.render()).collect::<Vec<_>>().join(" "),
    })).collect::<Vec<_>>()})
}

fn io_history_from_json(v: &Value) -> Option<Vec<IoSegment>> {
    let mut out = vec![];
    for g in v.get("segments")?.as_array()? {
        let mut push_in = vec![];
        for m in g.get("push_in")?.as_array()? {
            push_in.push(MsgSpec {
                header: m.get("header")?.as_array()?.iter().filter_map(|x| x.as_i64().map(|y| y as i32)).collect(),
                body: m.get("body")?.as_array()?.iter().filter_map(|x| x.as_bool()).collect(),
            });
        }
        out.push(IoSegment {
            push_in,
            force: g.get("force")?.as_bool()?,
            pop_out: g.get("pop_out")?.as_u64()? as u8,
            pop_in: g.get("pop_in")?.as_u64()? as u8,
            program: g.get("program")?.as_array()?.iter().filter_map(ItemSpec::from_json).collect(),
        });
    }
    Some(out)
}

/// crash-only: every host call on the queues and every step returns
fn judge_io_history(h: &Vec<IoSegment>) -> CaseResult {
    use pushr::push::io::PushMessage;
    use pushr::push::vector::{BoolVector, IntVector};
    let (mut st, _) = StateSpec::default().build();
    let mut wrapped = false;
    let mut pushed_total = 0usize;
    let mut steps = 0usize;
    let mut hh = Fnv::new();
    for (gi, g) in h.iter().enumerate() {
        crate::supervise::journal_value(&json!({"kind": "c01-io", "history": io_history_json(h)}));
        let r = guarded(|| {
            for m in &g.push_in {
                let pm = PushMessage::new(IntVector::new(m.header.clone()), BoolVector::new(m.body.clone()));
                if g.force {
                    st.input_stack.push_force(pm);
                } else {
                    st.input_stack.push(pm);
                }
            }
            for _ in 0..g.pop_out {
                let _ = st.output_stack.pop();
            }
            for _ in 0..g.pop_in {
                let _ = st.input_stack.pop();
            }
            let _ = st.input_stack.to_string();
            let _ = st.output_stack.to_string();
            let _ = st.input_stack.copy_oldest();
            let _ = st.output_stack.peek_newest();
            let _ = st.input_stack.iter().count();
        });
        if let Err((loc, msg)) = r {
            return Err(Fail::new(format!("C01/io-history/host-call/panic@{}", loc), format!("segment {}: host calls on the INPUT / OUTPUT queues panicked at {}: {}", gi, loc, msg)));
        }
        pushed_total += g.push_in.len();
        if pushed_total > 10 {
            wrapped = true;
        }
        for it in g.program.iter().rev() {
            st.exec_stack.push(it.to_item());
        }
        hh.u64(g.program.len() as u64 ^ ((g.push_in.len() as u64) << 8) ^ ((g.pop_out as u64) << 16));
        for x in &g.program {
            hh.str(&x.render());
        }
        match crate::exec::with_machine(|m| step_program(&mut st, m, 200)) {
            Ok(stats) => steps += stats.steps,
            Err((name, loc, msg)) => {
                return Err(Fail::new(format!("C01/{}/panic@{}", name, loc), format!("segment {} of an INPUT/OUTPUT history: {} panicked at {}: {}", gi, name, loc, msg)));
            }
        }
    }
    Ok(CaseOut::new(wrapped && steps >= 8, hh.0).class(if wrapped { "ring wrapped" } else { "ring not wrapped" }))
}

/// crash-only re-execution of a journalled INPUT/OUTPUT history (fresh process)
pub fn exec_journalled_io(v: &Value) -> Result<(), String> {
    let h = v.get("history").and_then(io_history_from_json).ok_or("bad io history")?;
    judge_io_history(&h).map(|_| ()).map_err(|f| f.detail)
}

fn io_histories(ctx: &Ctx, n: u64) -> SubReport {
    let mut rep = run_sharded(ctx, "io-histories", n, io_history_strategy, judge_io_history, io_history_json);
    rep.notes.push("a long-lived state: 2..6 segments, in each the host queues 0..12 INPUT messages (push or push_force), takes 0..3 messages off OUTPUT and INPUT, observes both queues, and a program of INPUT.* / OUTPUT.* instructions and operands is stepped; the ring cursors therefore wrap and the queues are refilled after being partly consumed; crash-only; non-trivial = more than one ring capacity of messages queued and >= 8 steps".into());
    rep
}

pub fn run(ctx: &Ctx) -> PropReport {
    let names = crate::exec::registry_names();
    let mut rep = PropReport::new(
        "(A) every registered instruction x operand profiles (each documented operand stack at a depth from {0,1,need-1,need,need+2,6}, values from the boundary pools, index-like INTEGER operands at len-1/len/len+1/-len, live and stale graph node ids, INPUT messages with empty bodies, random bystanders), one step; (G) GRAPH.* instruction histories (DUP then mutation: stacked graphs sharing node ids; live / stale / absurd ids); (B) program trees over the full registry and programs from random_code_with_size(1..300) on random initial states and configurations, executed by <= 400 monitored single steps and - deterministic programs that stayed inside the envelope - by run(); non-trivial = (A) all documented operands present or the state size changed, (B) >= 5 instructions executed with their operands present; distinct = (instruction, state) / state digest",
        "INV: every step()/run() call returns; a panic (caught per case) or an abnormal worker exit / hang (detected by the supervising parent through the per-thread journal and confirmed in a fresh process) is a violation. Resource envelope: positive size operands > 4096 clamped, cases abandoned beyond 20 000 points per item or 200 000 cells; EXEC.CMD performs its stack effect without spawning unless the command is /bin/true.",
    );
    rep.assumptions.push("dev profile (debug assertions and overflow checks on), the profile of the repository's own test suite".into());
    let a = run_sharded(ctx, "single-instruction-sweep", ctx.tier.pick(600, 6000) * names.len() as u64, || sweep_strategy(crate::exec::registry_names()), judge_sweep, |c| {
        json!({"instruction": c.name, "state": c.state.to_json(), "live_ids": c.live_ids, "brief": c.state.brief()})
    });
    rep.push(a);
    let (d, sz) = ctx.tier.pick((4u32, 40u32), (6, 120));
    rep.push(run_sharded(ctx, "programs", ctx.tier.pick(30_000, 400_000), move || prog_strategy(crate::exec::registry_names(), d, sz), judge_program, |c| {
        json!({"state": c.state.to_json(), "program": c.state.exec.iter().map(|x| x.render()).collect::<Vec<_>>().join(" | ")})
    }));
    rep.push(generated_programs(ctx, ctx.tier.pick(8_000, 100_000)));
    rep.push(graph_histories(ctx, ctx.tier.pick(40_000, 400_000)));
    rep.push(io_histories(ctx, ctx.tier.pick(40_000, 400_000)));
    rep.push(exec_cmd_cases(ctx, ctx.tier.pick(2, 6)));
    if ctx.tier == Tier::Thorough {
        rep.push(crate::fuzzrun::campaign(ctx, "C01", "exec_program", 2_000_000, 1024));
    }
    rep
}

pub fn replay(ctx: &Ctx, sub: &str, case: &Value) -> Result<(), Fail> {
    if sub == "graph-histories" {
        // histories are stored in debug form; replay re-runs the sub-check with the recorded seed
        let r = graph_histories(ctx, 20_000);
        return match r.violations.first() {
            Some(v) => Err(Fail::new(v.signature.clone(), v.detail.clone())),
            None => Ok(()),
        };
    }
    let bad = || Fail::new("replay-format", "cannot decode C01 case");
    if sub == "io-histories" {
        let h = io_history_from_json(case).ok_or_else(bad)?;
        return judge_io_history(&h).map(|_| ());
    }
    let s = StateSpec::from_json(case.get("state").ok_or_else(bad)?).ok_or_else(bad)?;
    if let Some(name) = case.get("instruction").and_then(|x| x.as_str()) {
        let live = case.get("live_ids").and_then(|x| x.as_u64()).unwrap_or(0) as u8;
        return judge_sweep(&SweepCase { name: name.to_string(), state: s, live_ids: live }).map(|_| ());
    }
    let _ = sub;
    judge_program(&ProgCase { state: s }).map(|_| ())
}
