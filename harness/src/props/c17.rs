//! C17 — ring buffer and INPUT/OUTPUT queues.
//!
//! (B) PushBuffer<i32> API histories against a bounded VecDeque model (exhaustive for short
//!     histories, random long ones with many wrap-arounds).
//! (I) INPUT.* / OUTPUT.* instruction sequences, lock-step against the reference interpreter.

use crate::engine::*;
use crate::gen;
use crate::lockstep::lockstep;
use crate::spec::*;
use proptest::prelude::*;
use pushr::push::buffer::{BufferType, PushBuffer};
use serde_json::{json, Value};
use std::collections::{BTreeSet, VecDeque};

#[derive(Clone, Debug, PartialEq)]
pub enum Op {
    Push(i32),
    PushForce(i32),
    Pop,
    Flush,
    Get(usize),
    GetMutSet(usize, i32),
    Copy(usize),
    CopyOldest,
    PeekOldest,
    PeekNewest,
    Iter,
    Size,
    IsEmpty,
    IsFull,
    ToString,
    Capacity,
}
use Op::*;

impl Op {
    fn is_mutator(&self) -> bool {
        matches!(self, Push(_) | PushForce(_) | Pop | Flush | GetMutSet(_, _))
    }
    fn to_json(&self) -> Value {
        match self {
            Push(v) => json!({"op":"push","v":v}),
            PushForce(v) => json!({"op":"push_force","v":v}),
            Pop => json!({"op":"pop"}),
            Flush => json!({"op":"flush"}),
            Get(i) => json!({"op":"get","i":i}),
            GetMutSet(i, v) => json!({"op":"get_mut","i":i,"v":v}),
            Copy(i) => json!({"op":"copy","i":i}),
            CopyOldest => json!({"op":"copy_oldest"}),
            PeekOldest => json!({"op":"peek_oldest"}),
            PeekNewest => json!({"op":"peek_newest"}),
            Iter => json!({"op":"iter"}),
            Size => json!({"op":"size"}),
            IsEmpty => json!({"op":"is_empty"}),
            IsFull => json!({"op":"is_full"}),
            ToString => json!({"op":"to_string"}),
            Capacity => json!({"op":"capacity"}),
        }
    }
    fn from_json(j: &Value) -> Option<Op> {
        let i = || j.get("i").and_then(|x| x.as_u64()).map(|x| x as usize);
        let v = || j.get("v").and_then(|x| x.as_i64()).map(|x| x as i32);
        Some(match j.get("op")?.as_str()? {
            "push" => Push(v()?),
            "push_force" => PushForce(v()?),
            "pop" => Pop,
            "flush" => Flush,
            "get" => Get(i()?),
            "get_mut" => GetMutSet(i()?, v()?),
            "copy" => Copy(i()?),
            "copy_oldest" => CopyOldest,
            "peek_oldest" => PeekOldest,
            "peek_newest" => PeekNewest,
            "iter" => Iter,
            "size" => Size,
            "is_empty" => IsEmpty,
            "is_full" => IsFull,
            "to_string" => ToString,
            "capacity" => Capacity,
            _ => return None,
        })
    }
    fn name(&self) -> String {
        self.to_json().get("op").unwrap().as_str().unwrap().to_string()
    }
}

struct Model {
    d: VecDeque<i32>,
    cap: usize,
    stack: bool,
}
fn fo(v: Option<i32>) -> String {
    match v {
        Some(x) => format!("Some({})", x),
        None => "None".into(),
    }
}
impl Model {
    fn pos(&self, i: usize) -> Option<usize> {
        if i >= self.d.len() {
            None
        } else if self.stack {
            Some(self.d.len() - 1 - i)
        } else {
            Some(i)
        }
    }
    fn apply(&mut self, op: &Op) -> String {
        match op {
            Push(v) => {
                if self.d.len() < self.cap {
                    self.d.push_back(*v);
                }
                "()".into()
            }
            PushForce(v) => {
                if self.d.len() == self.cap {
                    self.d.pop_front();
                }
                self.d.push_back(*v);
                "()".into()
            }
            Pop => fo(if self.stack { self.d.pop_back() } else { self.d.pop_front() }),
            Flush => {
                self.d.clear();
                "()".into()
            }
            Get(i) | Copy(i) => fo(self.pos(*i).map(|p| self.d[p])),
            GetMutSet(i, v) => match self.pos(*i) {
                Some(p) => {
                    let old = self.d[p];
                    self.d[p] = *v;
                    fo(Some(old))
                }
                None => "None".into(),
            },
            CopyOldest | PeekOldest => fo(self.d.front().cloned()),
            PeekNewest => fo(self.d.back().cloned()),
            Iter => format!("{:?}", self.d.iter().cloned().collect::<Vec<_>>()),
            Size => self.d.len().to_string(),
            IsEmpty => self.d.is_empty().to_string(),
            IsFull => (self.d.len() == self.cap).to_string(),
            ToString => {
                // order not documented: compare as sorted multiset of printed live items
                let mut v: Vec<String> = self.d.iter().map(|x| x.to_string()).collect();
                v.sort();
                v.join(" ")
            }
            Capacity => self.cap.to_string(),
        }
    }
}
fn real_apply(b: &mut PushBuffer<i32>, op: &Op) -> String {
    match op {
        Push(v) => {
            b.push(*v);
            "()".into()
        }
        PushForce(v) => {
            b.push_force(*v);
            "()".into()
        }
        Pop => fo(b.pop()),
        Flush => {
            b.flush();
            "()".into()
        }
        Get(i) => fo(b.get(*i).cloned()),
        Copy(i) => fo(b.copy(*i)),
        GetMutSet(i, v) => match b.get_mut(*i) {
            Some(r) => {
                let old = *r;
                *r = *v;
                fo(Some(old))
            }
            None => "None".into(),
        },
        CopyOldest => fo(b.copy_oldest()),
        PeekOldest => fo(b.peek_oldest().cloned()),
        PeekNewest => fo(b.peek_newest().cloned()),
        Iter => format!("{:?}", b.iter().cloned().collect::<Vec<_>>()),
        Size => b.size().to_string(),
        IsEmpty => b.is_empty().to_string(),
        IsFull => b.is_full().to_string(),
        ToString => {
            let s = b.to_string();
            let mut v: Vec<String> = s.split_whitespace().map(|x| x.to_string()).collect();
            v.sort();
            v.join(" ")
        }
        Capacity => b.capacity().to_string(),
    }
}

fn observers(cap: usize) -> Vec<Op> {
    let mut v = vec![CopyOldest, PeekOldest, PeekNewest, Iter, Size, IsEmpty, IsFull, ToString, Capacity];
    for i in 0..=cap + 1 {
        v.push(Get(i));
        v.push(Copy(i));
    }
    v
}

fn step_both(b: &mut PushBuffer<i32>, m: &mut Model, op: &Op) -> Result<(), Fail> {
    let kind = if m.stack { "stack" } else { "queue" };
    let expected = m.apply(op);
    let got = guarded(|| real_apply(b, op)).map_err(|(loc, msg)| {
        Fail::new(format!("C17/buffer/{}/panic", op.name()), format!("{} buffer: {:?} panicked at {} ({})", kind, op, loc, msg))
    })?;
    if got != expected {
        return Err(Fail::new(
            format!("C17/buffer/{}/result", op.name()),
            format!("{} buffer cap {}: {:?} gave {} but a bounded sequence gives {} (live items oldest first: {:?})", kind, m.cap, op, got, expected, m.d),
        ));
    }
    Ok(())
}
/// after a mutator: all observers must agree with the model
fn observe_all(b: &mut PushBuffer<i32>, m: &mut Model) -> Result<(), Fail> {
    for ob in observers(m.cap) {
        step_both(b, m, &ob)?;
    }
    if b.size() > b.capacity() {
        return Err(Fail::new("C17/buffer/size-exceeds-capacity", "size > capacity"));
    }
    Ok(())
}

fn run_history(cap: usize, stack: bool, ops: &[Op]) -> CaseResult {
    let mut b = PushBuffer::new(if stack { BufferType::Stack } else { BufferType::Queue }, cap);
    let mut m = Model { d: VecDeque::new(), cap, stack };
    let mut pushes = 0usize;
    let mut h = Fnv::new();
    h.u64(cap as u64);
    h.u8(stack as u8);
    observe_all(&mut b, &mut m)?;
    for op in ops {
        h.str(&format!("{:?}", op));
        if matches!(op, Push(_) | PushForce(_)) {
            pushes += 1;
        }
        step_both(&mut b, &mut m, op)?;
        if op.is_mutator() {
            observe_all(&mut b, &mut m)?;
        }
    }
    let wraps = pushes / cap.max(1);
    Ok(CaseOut::new(wraps >= 1 && ops.iter().any(|o| matches!(o, Pop | PushForce(_))), h.0).class(format!("wraps>={}", wraps.min(20) / 5 * 5)))
}

fn exhaustive(ctx: &Ctx, len: usize) -> SubReport {
    // all mutator sequences (observers are applied after every mutator) for capacity 1..3, both kinds
    let mut configs = vec![];
    for cap in 1..=3usize {
        for stack in [false, true] {
            configs.push((cap, stack));
        }
    }
    fn muts(cap: usize) -> Vec<Op> {
        let mut v = vec![Push(1), Push(0), PushForce(3), PushForce(0), Pop, Flush];
        for i in 0..=cap {
            v.push(GetMutSet(i, 9));
        }
        v
    }
    let mut work = vec![];
    for (cap, stack) in &configs {
        for first in muts(*cap) {
            for second in muts(*cap) {
                work.push((*cap, *stack, first.clone(), second));
            }
        }
    }
    let mut rep = par_map(ctx, "buffer-exhaustive", work.len() as u64, |i, rep| {
        let (cap, stack, first, second) = work[i as usize].clone();
        let ms = muts(cap);
        // iterate all sequences of length `len` with the given first two ops
        let n = ms.len();
        let rest = len.saturating_sub(2);
        let total = n.pow(rest as u32);
        for code in 0..total {
            let mut ops = vec![first.clone(), second.clone()];
            let mut c = code;
            for _ in 0..rest {
                ops.push(ms[c % n].clone());
                c /= n;
            }
            // also every prefix is covered because observers run after every mutator
            rep.evaluations += 1;
            match run_history(cap, stack, &ops) {
                Ok(o) => {
                    if o.nontrivial {
                        rep.nontrivial_extra += 1;
                    }
                }
                Err(f) => rep.fail(ctx, f, json!({"cap": cap, "stack": stack, "ops": ops.iter().map(|o| o.to_json()).collect::<Vec<_>>()})),
            }
        }
    });
    rep.exhaustive = true;
    rep.notes.push(format!("every mutator sequence of length {} (push x2, push_force x2, pop, flush, get_mut(i)=v for i in 0..=cap) for capacity 1..3 and both buffer kinds; all observers after every mutator", len));
    rep.sample(json!({"cap": 2, "stack": false, "ops": [Push(1).to_json(), PushForce(3).to_json(), PushForce(4).to_json(), Pop.to_json()]}));
    rep
}

fn op_strategy(cap: usize) -> BoxedStrategy<Op> {
    let v = 0i32..100;
    let pos = 0..=cap + 1;
    prop_oneof![
        6 => v.clone().prop_map(Push),
        6 => v.clone().prop_map(PushForce),
        5 => Just(Pop),
        1 => Just(Flush),
        2 => pos.clone().prop_map(Get),
        2 => (pos.clone(), v).prop_map(|(i, x)| GetMutSet(i, x)),
        1 => pos.prop_map(Copy),
        1 => Just(Iter),
        1 => Just(ToString),
        1 => Just(PeekNewest),
        1 => Just(PeekOldest),
    ]
    .boxed()
}

// ---------------------------------------------------------------------------------------------
// instruction level

const IO_INSTRS: [&str; 8] = [
    "INPUT.READ", "INPUT.GET", "INPUT.NEXT", "INPUT.AVAILABLE", "INPUT.STACKDEPTH", "OUTPUT.WRITE", "OUTPUT.FLUSH", "OUTPUT.STACKDEPTH",
];

fn io_program() -> BoxedStrategy<StateSpec> {
    let tok = prop_oneof![
        10 => prop::sample::select(IO_INSTRS.to_vec()).prop_map(|s| ItemSpec::Instr(s.to_string())),
        3 => gen::index_around(5).prop_map(ItemSpec::Int),
        2 => gen::bvec(6).prop_map(ItemSpec::BVec),
        2 => gen::ivec_small(4).prop_map(ItemSpec::IVec),
    ];
    (prop::collection::vec(gen::msg(), 0..=10), prop::collection::vec(tok, 1..40), prop::collection::vec(gen::msg(), 0..=3))
        .prop_map(|(input, prog, output)| {
            let mut s = StateSpec::default();
            s.input = input;
            s.output = output;
            s.exec = prog;
            s
        })
        .boxed()
}

fn run_io(st: &StateSpec) -> CaseResult {
    let reg: BTreeSet<String> = crate::exec::registry_names().into_iter().collect();
    let r = lockstep("C17", st, 200, &reg, &|_, _| false)?;
    let nexts = st.exec.iter().filter(|x| matches!(x, ItemSpec::Instr(n) if n == "INPUT.NEXT")).count();
    let writes = st.exec.iter().filter(|x| matches!(x, ItemSpec::Instr(n) if n == "OUTPUT.WRITE")).count();
    Ok(CaseOut::new(st.input.len() >= 2 && (nexts >= 1 || writes >= 2) && r.compared_instr >= 3, st.digest())
        .class(format!("msgs{}", st.input.len().min(10) / 3 * 3)))
}

/// Registered INPUT.* / OUTPUT.* names beyond the eight documented ones (none on the pinned tree):
/// whatever such an instruction does, an INPUT.* instruction must not drop or reorder pending
/// OUTPUT messages, and an OUTPUT.* instruction must not take INPUT messages out of turn
/// ("none lost silently", "strictly first-in first-out").
fn unlisted_io(ctx: &Ctx, n: u64) -> SubReport {
    let extra: Vec<String> = crate::exec::registry_names().into_iter().filter(|x| (x.starts_with("INPUT.") || x.starts_with("OUTPUT.")) && !IO_INSTRS.contains(&x.as_str())).collect();
    if extra.is_empty() {
        let mut rep = SubReport::new("unlisted-io-instructions");
        rep.notes.push("the registry holds no INPUT.* / OUTPUT.* instruction beyond the eight documented ones: nothing to run".into());
        return rep;
    }
    let names = extra.clone();
    let mut rep = run_sharded(
        ctx,
        "unlisted-io-instructions",
        n,
        move || (prop::sample::select(names.clone()), io_program()),
        |(name, st): &(String, StateSpec)| {
            let mut s = st.clone();
            s.exec.clear();
            s.ints = vec![1, 0, 2];
            s.bvecs = vec![vec![true, false]];
            s.ivecs = vec![vec![3]];
            let after = crate::exec::step_named_on(&s, name).map_err(|(l, m)| Fail::new(format!("C17/{}/panic@{}", name, l), m))?;
            fn subsequence(small: &[MsgSpec], big: &[MsgSpec]) -> bool {
                let mut it = big.iter();
                small.iter().all(|x| it.any(|y| y == x))
            }
            if name.starts_with("INPUT.") && !subsequence(&s.output, &after.output) {
                return Err(Fail::new(format!("C17/{}/pending-output-lost", name), format!("{} changed the pending OUTPUT messages {:?} -> {:?}", name, s.output, after.output)));
            }
            if name.starts_with("OUTPUT.") {
                let k = after.input.len();
                let ok = k <= s.input.len() && (after.input[..] == s.input[..k] || after.input[..] == s.input[s.input.len() - k..]);
                if !ok {
                    return Err(Fail::new(format!("C17/{}/input-taken-out-of-turn", name), format!("{} changed the INPUT queue {:?} -> {:?}", name, s.input, after.input)));
                }
            }
            let mut h = Fnv::new();
            h.str(name);
            h.u64(s.digest());
            Ok(CaseOut::new(!s.output.is_empty() || !s.input.is_empty(), h.0))
        },
        |(name, st)| json!({"instruction": name, "state": st.to_json()}),
    );
    rep.notes.push(format!("registered but undocumented IO instructions: {:?}", extra));
    rep
}

pub fn run(ctx: &Ctx) -> PropReport {
    let mut rep = PropReport::new(
        "PushBuffer<i32> API histories (capacity 1..5, both kinds) and INPUT/OUTPUT instruction sequences over 0..10 generated messages; non-trivial = at least one wrap-around (pushes >= capacity) together with a pop or forced push (buffer), or >= 2 queued messages with a NEXT or two WRITEs and >= 3 compared instructions (IO); distinct = hash of (capacity, kind, history) / state digest",
        "REF oracle: bounded VecDeque (front = oldest); every observer compared after every mutator; printing compared as the multiset of printed live items. IO instructions run lock-step against the reference interpreter.",
    );
    rep.assumptions.push("print order of the buffer is not documented: compared as a multiset".into());
    rep.assumptions.push("OUTPUT.WRITE on a full queue and INPUT.GET on an empty body: only 'nothing fabricated, no crash' is asserted".into());
    rep.push(exhaustive(ctx, ctx.tier.pick(6, 7)));
    let n = ctx.tier.pick(40_000, 400_000);
    rep.push(run_sharded(
        ctx,
        "buffer-random",
        n,
        || (1usize..=5, any::<bool>()).prop_flat_map(|(cap, stack)| (Just(cap), Just(stack), prop::collection::vec(op_strategy(cap), 0..300))),
        |(cap, stack, ops): &(usize, bool, Vec<Op>)| run_history(*cap, *stack, ops),
        |(cap, stack, ops)| json!({"cap": cap, "stack": stack, "ops": ops.iter().map(|o| o.to_json()).collect::<Vec<_>>()}),
    ));
    rep.push(run_sharded(ctx, "io-instructions", ctx.tier.pick(40_000, 400_000), io_program, run_io, |s| json!({"state": s.to_json(), "program": s.exec.iter().map(|x| x.render()).collect::<Vec<_>>().join(" ")})));
    for r in crate::props::incontext::run_all(ctx, ctx.tier.pick(40_000, 600_000)) {
        rep.push(r);
    }
    rep.push(unlisted_io(ctx, ctx.tier.pick(20_000, 200_000)));
    rep
}

pub fn replay(_ctx: &Ctx, sub: &str, case: &Value) -> Result<(), Fail> {
    let bad = || Fail::new("replay-format", "cannot decode C17 case");
    if sub == "io-instructions" {
        let st = StateSpec::from_json(case.get("state").ok_or_else(bad)?).ok_or_else(bad)?;
        return run_io(&st).map(|_| ());
    }
    let cap = case.get("cap").and_then(|x| x.as_u64()).ok_or_else(bad)? as usize;
    let stack = case.get("stack").and_then(|x| x.as_bool()).ok_or_else(bad)?;
    let ops = case.get("ops").and_then(|x| x.as_array()).ok_or_else(bad)?.iter().map(Op::from_json).collect::<Option<Vec<_>>>().ok_or_else(bad)?;
    run_history(cap, stack, &ops).map(|_| ())
}
