//! Related calls: one or two instructions owned by the property are executed several times in a
//! row on the same registry instance (same thread), on states that are equal except for ONE
//! operand slot whose value comes from a small pool. Every call is judged against the reference
//! on its own state. A result that depends on what the instruction (or a sibling) was called
//! with before - a memo keyed on part of the operands, a scratch buffer that is not cleared, a
//! cursor left behind - shows as a mismatch at a later call of the sequence.

use crate::engine::*;
use crate::footprint;
use crate::gen;
use crate::lockstep::owner_of;
use crate::single::{judge_instr, supply, top_up};
use crate::spec::*;
use proptest::prelude::*;
use serde_json::{json, Value};

#[derive(Debug, Clone)]
pub struct Variant {
    /// which of the two instructions
    pub which: bool,
    /// index into the instruction's `need` list (monotone map), position below the top, pool index
    pub need_sel: u16,
    pub pos: u8,
    pub val: u8,
}

#[derive(Debug, Clone)]
pub struct Case {
    pub names: (String, String),
    pub base: StateSpec,
    pub variants: Vec<Variant>,
}

fn ipool() -> [i32; 10] {
    [0, 1, 2, 3, 5, -1, 7, 40, 48, -3]
}
fn fpool() -> [f32; 7] {
    [0.0, 1.0, 0.5, -2.0, 3.0, 0.25, 1.5707964]
}
fn cpool() -> Vec<ItemSpec> {
    vec![
        ItemSpec::List(vec![]),
        ItemSpec::Int(1),
        ItemSpec::List(vec![ItemSpec::Int(1), ItemSpec::Int(2)]),
        ItemSpec::List(vec![ItemSpec::List(vec![ItemSpec::Int(1)]), ItemSpec::Int(2)]),
        ItemSpec::List(vec![ItemSpec::Int(1), ItemSpec::List(vec![ItemSpec::Int(1), ItemSpec::Int(2)]), ItemSpec::Int(3), ItemSpec::Int(4)]),
        ItemSpec::Bool(true),
    ]
}

/// `base` with one operand slot of `name` replaced
fn apply(base: &StateSpec, name: &str, v: &Variant) -> StateSpec {
    let mut s = base.clone();
    let fp = match footprint::get(name) {
        Some(f) => f,
        None => return s,
    };
    if fp.need.is_empty() {
        return s;
    }
    let (comp, depth) = fp.need[gen::pick_index(v.need_sel, fp.need.len())];
    let pos = (v.pos as usize) % depth.max(1);
    let k = v.val as usize;
    match comp {
        "INTEGER" if pos < s.ints.len() => s.ints[pos] = ipool()[k % 10],
        "FLOAT" if pos < s.floats.len() => s.floats[pos] = fpool()[k % 7],
        "BOOLEAN" if pos < s.bools.len() => s.bools[pos] = k % 2 == 0,
        "NAME" if pos < s.names.len() => s.names[pos] = ["a", "b", "c"][k % 3].to_string(),
        "INTVECTOR" if pos < s.ivecs.len() => s.ivecs[pos] = [vec![], vec![1, 2], vec![9, 8], vec![1, 2, 3, 4], vec![5, 6, 7, 8, 9, 10], vec![0, 0, 3]][k % 6].clone(),
        "FLOATVECTOR" if pos < s.fvecs.len() => s.fvecs[pos] = [vec![], vec![1.0, 2.0], vec![0.0, 2.0], vec![4.0, 0.0, 1.0], vec![1.5], vec![2.0, 2.0, 2.0, 2.0, 2.0]][k % 6].clone(),
        "BOOLVECTOR" if pos < s.bvecs.len() => s.bvecs[pos] = [vec![], vec![true], vec![true, false], vec![false, false, true, true], vec![true, true, true]][k % 5].clone(),
        "CODE" if pos < s.code.len() => {
            let p = cpool();
            s.code[pos] = p[k % p.len()].clone()
        }
        "EXEC" if pos < s.exec.len() => {
            let p = cpool();
            s.exec[pos] = p[k % p.len()].clone()
        }
        _ => {}
    }
    s
}

fn strategy(prop: &str) -> BoxedStrategy<Case> {
    let all = crate::props::incontext::names();
    // the two inverted conversions (known finding K2) are judged by C04's own sub-check only
    let owned: Vec<String> = all.iter().filter(|n| owner_of(n) == prop && n.as_str() != "BOOLEAN.FROMFLOAT" && n.as_str() != "BOOLEAN.FROMINTEGER").cloned().collect();
    let kinds = gen::AtomKinds::all(all.clone());
    let mut p = gen::StateParams::full(all);
    p.max_depth = 3;
    p.tree_depth = 2;
    p.tree_size = 6;
    let variant = (any::<bool>(), any::<u16>(), 0u8..3, 0u8..12).prop_map(|(which, need_sel, pos, val)| Variant { which, need_sel, pos, val });
    (prop::sample::select(owned.clone()), prop::sample::select(owned), any::<bool>(), gen::state(&p), supply(&kinds), prop::collection::vec(variant, 2..7))
        .prop_map(|(a, b, same, mut s, sup, variants)| {
            let b = if same { a.clone() } else { b };
            for n in [&a, &b] {
                if let Some(fp) = footprint::get(n) {
                    top_up(&mut s, &fp, &sup);
                }
            }
            // magnitudes are C15's subject: size-like and index-like operands stay small here
            for v in s.ints.iter_mut() {
                if *v > 4096 || *v < -4096 {
                    *v %= 64;
                }
            }
            Case { names: (a, b), base: s, variants }
        })
        .boxed()
}

pub fn judge(prop: &str, c: &Case) -> CaseResult {
    let mut compared = 0;
    let mut h = Fnv::new();
    h.u64(c.base.digest());
    // the base state first, then every variant, then the base state again
    let mut calls: Vec<(String, StateSpec)> = vec![(c.names.0.clone(), c.base.clone())];
    for v in &c.variants {
        let n = if v.which { &c.names.1 } else { &c.names.0 };
        calls.push((n.clone(), apply(&c.base, n, v)));
    }
    calls.push((c.names.0.clone(), c.base.clone()));
    for (i, (n, st)) in calls.iter_mut().enumerate() {
        crate::envelope::clamp_sizes_spec(st, n);
        h.u64(st.digest());
        // the corners the in-context lock-step does not value-compare either (printed-form `=` /
        // DISCREPANCY on items that print alike, structural CODE instructions on NaN): executed,
        // so that whatever they leave behind is there for the next call, but not judged
        if crate::lockstep::context_skip(n, st) {
            let _ = crate::exec::step_named_on(st, n);
            continue;
        }
        match judge_instr(prop, n, st, false) {
            Ok(j) => {
                if j.compared {
                    compared += 1;
                }
            }
            Err(mut f) => {
                if f.signature.contains("/panic@") {
                    // C01's subject
                    return Ok(CaseOut::new(false, h.0).class("panic (C01's subject)"));
                }
                f.detail = format!("call {} of the related calls: {}", i + 1, f.detail);
                return Err(f);
            }
        }
    }
    Ok(CaseOut::new(compared >= 3, h.0).class(if c.names.0 == c.names.1 { "one instruction" } else { "two instructions" }))
}

fn render(c: &Case) -> Value {
    json!({
        "names": [c.names.0, c.names.1],
        "base": c.base.to_json(),
        "variants": c.variants.iter().map(|v| json!([v.which, v.need_sel, v.pos, v.val])).collect::<Vec<_>>(),
    })
}

pub fn run(ctx: &Ctx, n: u64) -> SubReport {
    let prop = ctx.prop.clone();
    let prop2 = ctx.prop.clone();
    let mut rep = run_sharded(ctx, "related-calls", n, move || strategy(&prop2), move |c: &Case| judge(&prop, c), render);
    rep.notes.push("one or two instructions owned by this property, called 4..8 times in a row through the same registry instance on states that differ from a common base state in exactly one operand slot (value from a pool of <= 10 values, so that parts of the operands repeat while others change); every call is compared with the reference on its own state; non-trivial = at least three of the calls value-compared".into());
    rep
}

pub fn replay(ctx: &Ctx, case: &Value) -> Result<(), Fail> {
    let bad = || Fail::new("replay-format", "cannot decode related-calls case");
    let names = case.get("names").and_then(|x| x.as_array()).ok_or_else(bad)?;
    let base = case.get("base").and_then(StateSpec::from_json).ok_or_else(bad)?;
    let mut variants = vec![];
    for v in case.get("variants").and_then(|x| x.as_array()).ok_or_else(bad)? {
        let a = v.as_array().ok_or_else(bad)?;
        variants.push(Variant {
            which: a.get(0).and_then(|x| x.as_bool()).ok_or_else(bad)?,
            need_sel: a.get(1).and_then(|x| x.as_u64()).ok_or_else(bad)? as u16,
            pos: a.get(2).and_then(|x| x.as_u64()).ok_or_else(bad)? as u8,
            val: a.get(3).and_then(|x| x.as_u64()).ok_or_else(bad)? as u8,
        });
    }
    let c = Case { names: (names.get(0).and_then(|x| x.as_str()).ok_or_else(bad)?.to_string(), names.get(1).and_then(|x| x.as_str()).ok_or_else(bad)?.to_string()), base, variants };
    judge(&ctx.prop, &c).map(|_| ())
}
