//! C07 — names: definition, lookup and quoting behave as documented for every type.

use crate::engine::*;
use crate::gen;
use crate::lockstep::lockstep;
use crate::spec::*;
use proptest::prelude::*;
use serde_json::{json, Value};
use std::collections::BTreeSet;

const TYPES: [&str; 8] = ["BOOLEAN", "INTEGER", "FLOAT", "CODE", "EXEC", "BOOLVECTOR", "INTVECTOR", "FLOATVECTOR"];
const NAMES4: [&str; 4] = ["a", "b", "ab", "x1"];

fn value_of(t: &str) -> BoxedStrategy<Vec<ItemSpec>> {
    // tokens that put a value on stack T
    let kinds = gen::AtomKinds { instrs: vec!["NOOP".into(), "INTEGER.DUP".into(), "NAME.QUOTE".into()], ..gen::AtomKinds::all(vec![]) };
    match t {
        "BOOLEAN" => any::<bool>().prop_map(|b| vec![ItemSpec::Bool(b)]).boxed(),
        "INTEGER" => gen::int_pool().prop_map(|b| vec![ItemSpec::Int(b)]).boxed(),
        "FLOAT" => gen::float_pool().prop_map(|b| vec![ItemSpec::Float(b)]).boxed(),
        "BOOLVECTOR" => gen::bvec(4).prop_map(|b| vec![ItemSpec::BVec(b)]).boxed(),
        "INTVECTOR" => gen::ivec(4).prop_map(|b| vec![ItemSpec::IVec(b)]).boxed(),
        "FLOATVECTOR" => gen::fvec(4).prop_map(|b| vec![ItemSpec::FVec(b)]).boxed(),
        "CODE" => gen::tree(&kinds, 3, 8, 3).prop_map(|t| vec![ItemSpec::instr("CODE.QUOTE"), t]).boxed(),
        _ => Just(vec![]).boxed(), // EXEC.DEFINE takes the next EXEC item
    }
}

fn token() -> BoxedStrategy<Vec<ItemSpec>> {
    // mostly the four names; sometimes a name that spells an instruction up to letter case
    let name = prop_oneof![
        9 => prop::sample::select(NAMES4.to_vec()),
        1 => prop::sample::select(vec!["noop", "Integer.Dup", "name.quote", "code.definition", "Exec.Define"]),
    ]
    .prop_map(|n| vec![ItemSpec::name(n)]);
    let kinds = gen::AtomKinds { instrs: vec!["NOOP".into(), "INTEGER.DUP".into()], ..gen::AtomKinds::all(vec![]) };
    let define = (prop::sample::select(TYPES.to_vec()), prop::sample::select(NAMES4.to_vec()), any::<bool>(), gen::tree(&kinds, 2, 6, 3)).prop_flat_map(|(t, n, quote, body)| {
        value_of(t).prop_map(move |mut v| {
            // value, then the name (quoted in case it is already bound), then T.DEFINE
            if quote {
                v.push(ItemSpec::instr("NAME.QUOTE"));
            }
            v.push(ItemSpec::name(n));
            v.push(ItemSpec::Instr(format!("{}.DEFINE", t)));
            if t == "EXEC" {
                v.push(body.clone());
            }
            v
        })
    });
    let bare_define = prop::sample::select(TYPES.to_vec()).prop_map(|t| vec![ItemSpec::Instr(format!("{}.DEFINE", t))]);
    let value = prop::sample::select(TYPES[..3].to_vec()).prop_flat_map(value_of);
    prop_oneof![
        6 => name,
        6 => define,
        1 => bare_define,
        2 => value,
        2 => Just(vec![ItemSpec::instr("NAME.QUOTE")]),
        2 => Just(vec![ItemSpec::instr("CODE.DEFINITION")]),
        1 => Just(vec![ItemSpec::instr("NAME.POP")]),
        1 => Just(vec![ItemSpec::instr("NAME.DUP")]),
        1 => Just(vec![ItemSpec::instr("CODE.QUOTE")]),
        1 => Just(vec![ItemSpec::instr("CODE.DO")]),
    ]
    .boxed()
}

fn program() -> BoxedStrategy<StateSpec> {
    (prop::collection::vec(token(), 1..14), any::<bool>())
        .prop_map(|(toks, wrap)| {
            let flat: Vec<ItemSpec> = toks.into_iter().flatten().collect();
            let mut s = StateSpec::default();
            s.exec = if wrap { vec![ItemSpec::List(flat)] } else { flat };
            s
        })
        .boxed()
}

fn flat_items(s: &StateSpec) -> Vec<ItemSpec> {
    let mut out = vec![];
    for it in &s.exec {
        match it {
            ItemSpec::List(v) => out.extend(v.iter().cloned()),
            x => out.push(x.clone()),
        }
    }
    out
}

/// only kinds whose printed form is exact (no floats, no vectors)
fn text_exact(t: &ItemSpec) -> bool {
    t.preorder().iter().all(|x| matches!(x, ItemSpec::List(_) | ItemSpec::Int(_) | ItemSpec::Bool(_) | ItemSpec::Name(_) | ItemSpec::Instr(_)))
}

fn judge(s: &StateSpec) -> CaseResult {
    let reg: BTreeSet<String> = crate::exec::registry_names().into_iter().collect();
    // the same program as text: names must be read as names (whatever they resemble), so that
    // "a name without a binding lands on the NAME stack" also holds for parsed programs
    if s.exec.iter().all(text_exact) {
        let text = s.exec.iter().map(|x| x.render()).collect::<Vec<_>>().join(" ");
        let parsed = crate::props::c03::parse_into(&StateSpec::default(), &text).map_err(|(l, m)| Fail::new(format!("C07/parse/panic@{}", l), m))?;
        if parsed.exec != s.exec {
            return Err(Fail::new(
                "C07/parse/program-text-not-read-as-written",
                format!("text {:?} parsed to [{}]", text, parsed.exec.iter().map(|x| format!("{:?}", x)).collect::<Vec<_>>().join(" | ").chars().take(400).collect::<String>()),
            ));
        }
    }
    let r = lockstep("C07", s, 400, &reg, &|_, _| false)?;
    // non-trivial: a define followed by a later use of the same name
    let items = flat_items(s);
    let mut defined: BTreeSet<String> = BTreeSet::new();
    let mut used_after = false;
    let mut redefined = false;
    let mut quote_then_bound = false;
    for i in 0..items.len() {
        if let ItemSpec::Name(n) = &items[i] {
            let is_def = matches!(items.get(i + 1), Some(ItemSpec::Instr(d)) if d.ends_with(".DEFINE"));
            if is_def {
                if defined.contains(n) {
                    redefined = true;
                }
                defined.insert(n.clone());
            } else if defined.contains(n) {
                used_after = true;
                if i > 0 && matches!(&items[i - 1], ItemSpec::Instr(q) if q == "NAME.QUOTE") {
                    quote_then_bound = true;
                }
            }
        }
    }
    let mut o = CaseOut::new(used_after && r.compared_instr >= 1, s.digest());
    if redefined {
        o = o.class("redefinition");
    }
    if quote_then_bound {
        o = o.class("quote-then-bound-name");
    }
    for t in TYPES.iter() {
        let d = format!("{}.DEFINE", t);
        if items.iter().any(|x| matches!(x, ItemSpec::Instr(n) if *n == d)) {
            o = o.class(d);
        }
    }
    Ok(o)
}

fn exhaustive(ctx: &Ctx, len: usize) -> SubReport {
    let alphabet: Vec<ItemSpec> = vec![
        ItemSpec::name("a"),
        ItemSpec::name("b"),
        ItemSpec::Int(1),
        ItemSpec::Bool(true),
        ItemSpec::Float(1.5),
        ItemSpec::instr("INTEGER.DEFINE"),
        ItemSpec::instr("BOOLEAN.DEFINE"),
        ItemSpec::instr("FLOAT.DEFINE"),
        ItemSpec::instr("NAME.QUOTE"),
        ItemSpec::instr("CODE.DEFINITION"),
    ];
    let k = alphabet.len() as u64;
    let mut total = 0u64;
    for l in 1..=len {
        total += k.pow(l as u32);
    }
    let mut rep = par_map(ctx, "exhaustive", total, |mut code, rep| {
        // decode (length, sequence)
        let mut l = 1;
        loop {
            let n = k.pow(l as u32);
            if code < n {
                break;
            }
            code -= n;
            l += 1;
        }
        let mut toks = vec![];
        for _ in 0..l {
            toks.push(alphabet[(code % k) as usize].clone());
            code /= k;
        }
        let mut s = StateSpec::default();
        s.exec = toks;
        rep.evaluations += 1;
        match judge(&s) {
            Ok(o) => {
                if o.nontrivial {
                    rep.nontrivial_extra += 1;
                }
            }
            Err(f) => rep.fail(ctx, f, json!({"state": s.to_json(), "program": s.exec.iter().map(|x| x.render()).collect::<Vec<_>>().join(" ")})),
        }
    });
    rep.exhaustive = true;
    rep.notes.push(format!("every token sequence of length <= {} over {{a, b, 1, TRUE, 1.5, INTEGER/BOOLEAN/FLOAT.DEFINE, NAME.QUOTE, CODE.DEFINITION}}", len));
    rep.sample(json!({"program": "1 a INTEGER.DEFINE NAME.QUOTE a a"}));
    rep
}

pub fn run(ctx: &Ctx) -> PropReport {
    let mut rep = PropReport::new(
        "programs over {value literals of the eight defining types (pools incl. NaN, empty vectors, nested code), four names, T.DEFINE, NAME.QUOTE, CODE.QUOTE, CODE.DEFINITION, NAME.POP/DUP, CODE.DO}: interleavings of define / use / quote / redefine up to 14 tokens, executed to completion; non-trivial = a definition followed by a later use of the same name; distinct = program digest (exhaustive part: counted)",
        "REF oracle: binding map + quote flag + typed stacks (reference interpreter), compared lock-step after every step on the whole snapshot including name_bindings and quote_name.",
    );
    rep.push(exhaustive(ctx, ctx.tier.pick(5, 6)));
    rep.push(run_sharded(ctx, "random", ctx.tier.pick(100_000, 1_000_000), program, judge, |s| json!({"state": s.to_json(), "program": s.exec.iter().map(|x| x.render()).collect::<Vec<_>>().join(" ")})));
    for r in crate::props::incontext::run_all(ctx, ctx.tier.pick(40_000, 600_000)) {
        rep.push(r);
    }
    rep
}

pub fn replay(_ctx: &Ctx, _sub: &str, case: &Value) -> Result<(), Fail> {
    let bad = || Fail::new("replay-format", "cannot decode C07 case");
    let s = StateSpec::from_json(case.get("state").ok_or_else(bad)?).ok_or_else(bad)?;
    judge(&s).map(|_| ())
}
