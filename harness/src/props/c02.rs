//! C02 — the run loop honours step, growth and time limits and reports the right outcome.
//!
//! DIFF + INV derived from the statement: side R = PushInterpreter::run, side S = our own
//! copy of EXEC onto CODE followed by repeated `step` calls with an independent accounting.

use crate::engine::*;
use crate::envelope;
use crate::exec::with_machine;
use crate::footprint;
use crate::gen;
use crate::spec::*;
use proptest::prelude::*;
use pushr::push::interpreter::{PushInterpreter, PushInterpreterState};
use serde_json::{json, Value};

pub fn rand_free_names() -> Vec<String> {
    crate::exec::registry_names()
        .into_iter()
        .filter(|n| !n.ends_with(".RAND") && n != "NAME.RANDBOUNDNAME" && n != "GRAPH.NODE*ADD" && n != "EXEC.CMD")
        .collect()
}

fn lit() -> BoxedStrategy<ItemSpec> {
    prop_oneof![3 => (-5i32..20).prop_map(ItemSpec::Int), 1 => any::<bool>().prop_map(ItemSpec::Bool), 1 => gen::float_tame().prop_map(ItemSpec::Float), 1 => gen::ivec_small(4).prop_map(ItemSpec::IVec)].boxed()
}

fn program() -> BoxedStrategy<Vec<ItemSpec>> {
    let names = rand_free_names();
    let kinds = gen::AtomKinds { instrs: names.clone(), ..gen::AtomKinds::all(names.clone()) };
    let general = gen::program(&kinds, 3, 24).prop_map(|p| vec![p]);
    // a list of k literals unpacked in one step: growth exactly k-1
    let flat = prop::collection::vec(lit(), 0..14).prop_map(|v| vec![ItemSpec::List(v)]);
    // diverging, non-growing / slowly growing loops
    let body = prop_oneof![
        Just(ItemSpec::instr("NOOP")),
        Just(ItemSpec::List(vec![ItemSpec::Int(1), ItemSpec::instr("INTEGER.POP")])),
        Just(ItemSpec::List(vec![ItemSpec::Int(1)])),
        Just(ItemSpec::instr("INTEGER.DUP")),
        Just(ItemSpec::List(vec![ItemSpec::instr("CODE.DUP"), ItemSpec::instr("EXEC.DUP")])),
    ];
    let diverge = (body, prop::collection::vec(lit(), 0..4)).prop_map(|(b, pre)| {
        let mut v = pre;
        v.push(ItemSpec::instr("EXEC.Y"));
        v.push(b);
        vec![ItemSpec::List(v)]
    });
    // exploding: DUP / FLUSH / FROMINT / unpacking mixes
    let boom = prop::collection::vec(
        prop_oneof![
            3 => lit(),
            2 => prop::sample::select(vec!["INTEGER.DUP", "INTEGER.DDUP", "CODE.DUP", "EXEC.DUP", "INTEGER.FLUSH", "CODE.FLUSH", "EXEC.FLUSH", "FLOAT.FLUSH", "INTVECTOR.FROMINT", "CODE.LIST", "CODE.APPEND", "BOOLEAN.FLUSH", "NAME.FLUSH", "INTVECTOR.FLUSH", "CODE.DO", "CODE.QUOTE", "INTVECTOR.LOOP"]).prop_map(|s| ItemSpec::instr(s)),
            1 => prop::collection::vec(lit(), 2..9).prop_map(ItemSpec::List),
        ],
        1..20,
    )
    .prop_map(|v| vec![ItemSpec::List(v)]);
    // several top-level items on EXEC (order of the copy onto CODE becomes observable)
    let multi = prop::collection::vec(gen::tree(&gen::AtomKinds { instrs: names, ..gen::AtomKinds::all(vec![]) }, 2, 6, 3), 2..5);
    prop_oneof![4 => general, 2 => flat, 2 => diverge, 3 => boom, 2 => multi].boxed()
}

#[derive(Clone, Debug)]
pub struct Case {
    pub state: StateSpec,
}

fn case_strategy(max_limit: i32) -> BoxedStrategy<Case> {
    let mut p = gen::StateParams::full(vec!["NOOP".into(), "INTEGER.+".into()]);
    p.max_depth = 3;
    p.tree_depth = 2;
    p.tree_size = 5;
    p.graphs = false;
    let limit = prop_oneof![3 => prop::sample::select(vec![-1, 0, 1, 2, 3]), 3 => 0..=max_limit, 1 => Just(max_limit)];
    let cap = prop::sample::select(vec![0usize, 1, 2, 3, 5, 10, 500]);
    (gen::state(&p), program(), limit, cap, any::<bool>())
        .prop_map(|(mut s, prog, limit, cap, keep_code)| {
            s.exec = prog;
            if !keep_code {
                s.code.clear();
            }
            s.config.eval_push_limit = limit;
            s.config.growth_cap = cap;
            s.config.eval_time_limit = u64::MAX / 4;
            s.quote_name = false;
            Case { state: s }
        })
        .boxed()
}

struct Trace {
    /// S[k] for k = 0..; S[0] = after the copy
    snaps: Vec<StateSpec>,
    /// flags[k-1] = return value of step k
    flags: Vec<bool>,
    abandoned: Option<&'static str>,
}

fn next_has_big_size_operand(s: &StateSpec) -> bool {
    if let Some(ItemSpec::Instr(n)) = s.exec.first() {
        if let Some(fp) = footprint::get(n) {
            if let Some(pos) = fp.size_at {
                if let Some(v) = s.ints.get(pos) {
                    return *v > envelope::MAX_SIZE_OPERAND;
                }
            }
        }
    }
    false
}

fn side_s(spec: &StateSpec, steps: usize) -> Result<Trace, Fail> {
    // our own copy: CODE = EXEC items (in EXEC order) on top of the old CODE
    let mut s0 = spec.clone();
    let mut code = spec.exec.clone();
    code.extend(spec.code.iter().cloned());
    s0.code = code;
    let (mut real, _) = s0.build();
    let mut tr = Trace { snaps: vec![StateSpec::snapshot(&real)], flags: vec![], abandoned: None };
    for _ in 0..steps {
        if next_has_big_size_operand(tr.snaps.last().unwrap()) {
            tr.abandoned = Some("size-operand");
            break;
        }
        let r = guarded(|| with_machine(|m| m.step(&mut real)));
        let fin = match r {
            Ok(f) => f,
            Err((loc, msg)) => return Err(Fail::new(format!("C02/step/panic@{}", loc), format!("step panicked: {} | {}", msg, tr.snaps.last().unwrap().brief()))),
        };
        if envelope::outside(&real) {
            tr.abandoned = Some("envelope");
            break;
        }
        tr.flags.push(fin);
        tr.snaps.push(StateSpec::snapshot(&real));
        if fin {
            break;
        }
    }
    Ok(tr)
}

fn judge(c: &Case) -> CaseResult {
    let spec = &c.state;
    let limit = spec.config.eval_push_limit as i64;
    let cap = spec.config.growth_cap;
    crate::supervise::journal_program("C02", spec, (limit.max(0) + 3) as usize, "step");
    let tr = side_s(spec, (limit.max(0) + 3) as usize)?;
    let mut h = Fnv::new();
    h.u64(spec.digest());
    h.u64(limit as u64);
    if let Some(why) = tr.abandoned {
        return Ok(CaseOut::new(false, h.0).class(format!("abandoned-{}", why)));
    }
    // step on an empty EXEC stack reports completion and changes nothing
    if let Some(pos) = tr.flags.iter().position(|f| *f) {
        if tr.snaps[pos + 1] != tr.snaps[pos] {
            return Err(Fail::new("C02/step-on-empty-exec-changed-state", tr.snaps[pos].diff(&tr.snaps[pos + 1]).unwrap_or_default()));
        }
        if !tr.snaps[pos].exec.is_empty() {
            return Err(Fail::new("C02/step-returned-true-with-items-on-exec", tr.snaps[pos].brief()));
        }
    }
    // e = number of steps that returned false before the first true
    let e: Option<usize> = tr.flags.iter().position(|f| *f);
    // g = number (from 1) of the first step that enlarged the state by more than cap
    let mut g: Option<usize> = None;
    for k in 1..tr.snaps.len() {
        if k <= tr.flags.len() && !tr.flags[k - 1] && tr.snaps[k].main_size() > tr.snaps[k - 1].main_size() + cap {
            g = Some(k);
            break;
        }
    }
    let e_inf = e.map(|x| x as i64).unwrap_or(i64::MAX);
    let g_inf = g.map(|x| x as i64).unwrap_or(i64::MAX);

    // side R
    crate::supervise::journal_program("C02", spec, 0, "run");
    let (mut real, _) = spec.build();
    let outcome = guarded(|| with_machine(|m| PushInterpreter::run(&mut real, &mut m.iset))).map_err(|(loc, msg)| Fail::new(format!("C02/run/panic@{}", loc), format!("run panicked: {} | {}", msg, spec.brief())))?;
    let fin = StateSpec::snapshot(&real);
    let at = |k: usize| -> Option<&StateSpec> { tr.snaps.get(k) };
    let same = |k: usize| at(k).map(|s| *s == fin).unwrap_or(false);
    let describe = || format!("limit {} cap {} e {:?} g {:?} | program [{}]", limit, cap, e, g, spec.exec.iter().map(|x| x.render()).collect::<Vec<_>>().join(" "));

    let class;
    match outcome {
        PushInterpreterState::NoErrors => {
            class = "NoErrors";
            let ok = e.is_some() && g_inf > e_inf && same(e.unwrap()) && fin.exec.is_empty();
            if !ok {
                let sig = if e.is_none() { "C02/NoErrors-but-exec-not-empty-within-budget" } else if g_inf <= e_inf { "C02/NoErrors-although-growth-cap-exceeded" } else { "C02/NoErrors-final-state-differs-from-stepping" };
                return Err(Fail::new(sig, describe()));
            }
            // never more than limit+1 steps
            if e_inf > limit + 1 {
                return Err(Fail::new("C02/NoErrors-after-more-than-limit+1-steps", describe()));
            }
        }
        PushInterpreterState::GrowthCapExceeded => {
            class = "GrowthCapExceeded";
            let ok = g.is_some() && g_inf <= e_inf && g_inf <= limit + 1 && same(g.unwrap());
            if !ok {
                let sig = if g.is_none() { "C02/GrowthCapExceeded-without-a-growing-step" } else if g_inf > limit + 1 { "C02/GrowthCapExceeded-beyond-step-budget" } else { "C02/GrowthCapExceeded-final-state-differs-from-stepping" };
                return Err(Fail::new(sig, describe()));
            }
        }
        PushInterpreterState::StepLimitExceeded => {
            class = "StepLimitExceeded";
            // exists k in {limit, limit+1} (0 when limit = -1), no growth event in the first k steps, e >= limit, final = S[k]
            let cands: Vec<i64> = if limit < 0 { vec![0] } else { vec![limit, limit + 1] };
            let ok = cands.iter().any(|k| *k >= 0 && g_inf > *k && e_inf >= *k && same(*k as usize)) && e_inf >= limit;
            if !ok {
                let sig = if e_inf < limit { "C02/StepLimitExceeded-for-a-program-that-needs-fewer-steps" } else { "C02/StepLimitExceeded-final-state-or-step-count-wrong" };
                return Err(Fail::new(sig, describe()));
            }
        }
        PushInterpreterState::TimeLimitExceeded => {
            return Err(Fail::new("C02/TimeLimitExceeded-with-huge-limit", describe()));
        }
    }
    // converse directions
    if e_inf < limit && g_inf > e_inf && outcome != PushInterpreterState::NoErrors {
        return Err(Fail::new("C02/should-be-NoErrors", format!("{:?} | {}", outcome, describe())));
    }
    if g_inf <= e_inf.min(limit) && outcome != PushInterpreterState::GrowthCapExceeded {
        return Err(Fail::new("C02/should-be-GrowthCapExceeded", format!("{:?} | {}", outcome, describe())));
    }
    // S[0]: CODE = EXEC items on top of the old CODE is how side S was built; check run did the same
    // (covered by final-state equality, which includes the CODE stack)
    let mut out = CaseOut::new(class != "NoErrors" || e_inf >= 5, h.0).class(class);
    if e.is_some() {
        let d = e_inf - limit;
        if (-1..=1).contains(&d) {
            out = out.class(format!("e=limit{:+}", d));
        }
    }
    // growth exactly at the cap somewhere
    for k in 1..tr.snaps.len() {
        let grow = tr.snaps[k].main_size() as i64 - tr.snaps[k - 1].main_size() as i64;
        if grow == cap as i64 && cap > 0 {
            out = out.class("growth=cap");
            break;
        }
        if grow == cap as i64 + 1 {
            out = out.class("growth=cap+1");
            break;
        }
    }
    Ok(out)
}

fn time_limit(ctx: &Ctx) -> SubReport {
    let mut rep = SubReport::new("time-limit");
    let progs = [
        vec![ItemSpec::instr("EXEC.Y"), ItemSpec::instr("NOOP")],
        vec![ItemSpec::instr("EXEC.Y"), ItemSpec::List(vec![ItemSpec::Int(1), ItemSpec::instr("INTEGER.POP")])],
    ];
    let ts: Vec<u64> = ctx.tier.pick(vec![5, 20, 50], vec![5, 10, 20, 50, 100, 200, 400]);
    for (pi, p) in progs.iter().enumerate() {
        for t in &ts {
            let mut s = StateSpec::default();
            s.exec = vec![ItemSpec::List(p.clone())];
            s.config.eval_push_limit = i32::MAX;
            s.config.eval_time_limit = *t;
            s.config.growth_cap = 500;
            let (mut real, _) = s.build();
            let start = std::time::Instant::now();
            let r = guarded(|| with_machine(|m| PushInterpreter::run(&mut real, &mut m.iset)));
            let el = start.elapsed();
            rep.evaluations += 1;
            let case = json!({"program": s.exec[0].render(), "eval_time_limit_ms": t, "measured_ms": el.as_millis() as u64});
            match r {
                Err((loc, msg)) => rep.fail(ctx, Fail::new(format!("C02/time-limit/panic@{}", loc), msg), case),
                Ok(o) => {
                    if el.as_millis() as u64 > t + 3000 {
                        // a heavily loaded machine: nothing is asserted for this run (the slow-step sub-check decides the outcome independently of speed)
                        rep.notes.push(format!("time-limit sub-check: run took {} ms for a {} ms limit (loaded machine): not judged", el.as_millis(), t));
                    } else if o != PushInterpreterState::TimeLimitExceeded {
                        rep.fail(ctx, Fail::new("C02/time-limit/wrong-outcome", format!("diverging program with limit {} ms returned {:?} after {} ms", t, o, el.as_millis())), case);
                    } else if (el.as_millis() as u64) < *t {
                        rep.fail(ctx, Fail::new("C02/time-limit/returned-before-the-limit", format!("limit {} ms but returned after {} ms", t, el.as_millis())), case);
                    } else {
                        rep.nontrivial.insert((pi as u64) << 32 | *t);
                        rep.sample(case);
                    }
                }
            }
        }
    }
    rep
}

/// The measure the growth cap is applied to: PushState::size() counts the items of the typed
/// stacks ("total size of stacks without IO stacks"). META: pushing one item onto any of the nine
/// typed stacks raises it by exactly one, queueing an INPUT/OUTPUT message does not change it,
/// and it equals the sum of the nine depths of the snapshot.
fn size_accounting(ctx: &Ctx, n: u64) -> SubReport {
    run_sharded(
        ctx,
        "size-accounting",
        n,
        || {
            let mut p = gen::StateParams::full(vec!["NOOP".into()]);
            p.max_depth = 4;
            p.tree_depth = 2;
            p.tree_size = 5;
            p.graphs = false;
            gen::state(&p)
        },
        |s: &StateSpec| {
            let (mut st, _) = s.build();
            let base = st.size();
            if base != s.main_size() {
                return Err(Fail::new("C02/size/not-the-sum-of-the-typed-stacks", format!("PushState::size() = {} but the nine typed stacks hold {} items | {}", base, s.main_size(), s.brief())));
            }
            let mut sizes = vec![];
            st.bool_stack.push(true);
            sizes.push(("BOOLEAN", st.size()));
            st.int_stack.push(1);
            sizes.push(("INTEGER", st.size()));
            st.float_stack.push(1.0);
            sizes.push(("FLOAT", st.size()));
            st.name_stack.push("n".into());
            sizes.push(("NAME", st.size()));
            st.code_stack.push(pushr::push::item::Item::int(1));
            sizes.push(("CODE", st.size()));
            st.exec_stack.push(pushr::push::item::Item::int(1));
            sizes.push(("EXEC", st.size()));
            st.bool_vector_stack.push(pushr::push::vector::BoolVector::new(vec![true]));
            sizes.push(("BOOLVECTOR", st.size()));
            st.int_vector_stack.push(pushr::push::vector::IntVector::new(vec![1]));
            sizes.push(("INTVECTOR", st.size()));
            st.float_vector_stack.push(pushr::push::vector::FloatVector::new(vec![1.0]));
            sizes.push(("FLOATVECTOR", st.size()));
            for (i, (t, sz)) in sizes.iter().enumerate() {
                if *sz != base + i + 1 {
                    return Err(Fail::new(format!("C02/size/ignores-{}", t), format!("pushing one item onto {} changed size() from {} to {}", t, base + i, sz)));
                }
            }
            let before_io = st.size();
            st.input_stack.push_force(pushr::push::io::PushMessage::new(pushr::push::vector::IntVector::new(vec![]), pushr::push::vector::BoolVector::new(vec![])));
            st.output_stack.push_force(pushr::push::io::PushMessage::new(pushr::push::vector::IntVector::new(vec![]), pushr::push::vector::BoolVector::new(vec![])));
            if st.size() != before_io {
                return Err(Fail::new("C02/size/counts-io-queues", format!("queueing messages changed size() from {} to {}", before_io, st.size())));
            }
            Ok(CaseOut::new(base >= 3, s.digest()))
        },
        |s| json!({"state": s.to_json(), "brief": s.brief()}),
    )
}

/// run() against stepping on registries other than the default one: an instruction set that was
/// never loaded (instruction items are then skipped), and sets holding a handful of instructions
/// registered through add(). The stepping side builds its InstructionCache from the names it
/// registered itself (not through InstructionSet::cache). The caller's instruction set must
/// hold exactly the same names afterwards.
fn custom_registries(ctx: &Ctx, n: u64) -> SubReport {
    use pushr::push::instructions::{InstructionCache, InstructionSet};
    const SOME: [&str; 6] = ["NOOP", "INTEGER.MAX", "INTEGER.DUP", "EXEC.DUP", "CODE.QUOTE", "BOOLEAN.NOT"];
    fn harness_noop(_s: &mut pushr::push::state::PushState, _c: &InstructionCache) {}
    fn build_set(k: usize) -> (InstructionSet, Vec<String>) {
        // k = 0: never loaded, empty; otherwise the first k names of SOME registered through add()
        use pushr::push::instructions::Instruction;
        let mut set = InstructionSet::new();
        let mut names = vec![];
        for n in SOME.iter().take(k) {
            let i = match *n {
                "NOOP" => Instruction::new(harness_noop),
                "INTEGER.MAX" => Instruction::new(pushr::push::integer::integer_max),
                "INTEGER.DUP" => Instruction::new(pushr::push::integer::integer_dup),
                "EXEC.DUP" => Instruction::new(pushr::push::execution::exec_dup),
                "CODE.QUOTE" => Instruction::new(pushr::push::code::code_quote),
                _ => Instruction::new(pushr::push::boolean::boolean_not),
            };
            set.add(n.to_string(), i);
            names.push(n.to_string());
        }
        (set, names)
    }
    run_sharded(
        ctx,
        "custom-registries",
        n,
        || {
            let names: Vec<String> = ["NOOP", "INTEGER.MAX", "INTEGER.DUP", "EXEC.DUP", "CODE.QUOTE", "BOOLEAN.NOT", "INTEGER.-", "EXEC.POP", "CODE.DUP", "FLOAT.+"].iter().map(|s| s.to_string()).collect();
            let kinds = gen::AtomKinds { vectors: false, ..gen::AtomKinds::all(names) };
            (gen::program(&kinds, 3, 16), 0usize..=6, prop::collection::vec(gen::int_pool(), 0..3))
        },
        |(prog, k, ints): &(ItemSpec, usize, Vec<i32>)| {
            let mut s = StateSpec::default();
            s.exec = vec![prog.clone()];
            s.ints = ints.clone();
            s.config.eval_push_limit = 300;
            s.config.growth_cap = 100_000;
            s.config.eval_time_limit = u64::MAX / 4;
            crate::supervise::journal_program("C02", &s, 300, "run");
            // run()
            let (mut a, _) = s.build();
            let (mut set_a, names) = build_set(*k);
            let out = guarded(|| PushInterpreter::run(&mut a, &mut set_a)).map_err(|(l, m)| Fail::new(format!("C02/run/panic@{}", l), m))?;
            let mut after_names: Vec<String> = set_a.cache().list.clone();
            after_names.sort();
            let mut want_names = names.clone();
            want_names.sort();
            if after_names != want_names {
                return Err(Fail::new("C02/run-changes-the-instruction-set", format!("the caller's instruction set held {:?} before run() and {} names afterwards", want_names, after_names.len())));
            }
            // stepping
            let mut d = s.clone();
            let mut code = d.exec.clone();
            code.extend(d.code.iter().cloned());
            d.code = code;
            let (mut b, _) = d.build();
            let (mut set_b, names_b) = build_set(*k);
            let cache = InstructionCache::new(names_b);
            let mut steps = 0;
            let mut finished = false;
            while steps <= 301 {
                let fin = guarded(|| PushInterpreter::step(&mut b, &mut set_b, &cache)).map_err(|(l, m)| Fail::new(format!("C02/step/panic@{}", l), m))?;
                if fin {
                    finished = true;
                    break;
                }
                steps += 1;
            }
            if finished {
                if out != PushInterpreterState::NoErrors {
                    return Err(Fail::new("C02/custom-registry/outcome", format!("stepping ends after {} steps but run() returned {:?} | registry {:?} | {}", steps, out, names, prog.render())));
                }
                let (sa, sb) = (StateSpec::snapshot(&a), StateSpec::snapshot(&b));
                if let Some(dif) = sb.diff(&sa) {
                    return Err(Fail::new("C02/custom-registry/final-state-differs-from-stepping", format!("{} | registry {:?} | {}", dif, names, prog.render())));
                }
            }
            let mut h = Fnv::new();
            h.u64(s.digest());
            h.u64(*k as u64);
            Ok(CaseOut::new(finished && steps >= 5, h.0).class(format!("registry-of-{}", k)))
        },
        |(prog, k, ints)| json!({"program": prog.to_json(), "registry_size": k, "ints": ints, "text": prog.render()}),
    )
}

/// The command-line front end's top-level run: its first trace line must show the CODE stack
/// holding the program exactly as the EXEC stack does (the copy preserves the order), also for
/// texts with several top-level items.
fn cli_copy(ctx: &Ctx) -> SubReport {
    let mut rep = SubReport::new("command-line-copy-to-code");
    let bin = match std::env::var("PV_PUSHR_CLI") {
        Ok(b) if std::path::Path::new(&b).exists() => b,
        _ => {
            rep.inconclusive.push("pushr CLI binary not available (PV_PUSHR_CLI)".into());
            return rep;
        }
    };
    let texts = [
        "1", "( 1 2 )", "1 2", "1 2 3", "( 1 2 ) ( 3 ) 4", "TRUE ( FALSE ) 2.5 foo", "( ( 1 ) ( 2 ( 3 ) ) ) bar ( )", "1 2 3 4 5 6 7 8 9 10 11 12",
        "a b c d ( e f ) g", "( NOOP ) NOOP ( NOOP NOOP )", "INT[1,2] BOOL[1] 7", "( ) ( ) ( )",
    ];
    for t in texts.iter() {
        rep.evaluations += 1;
        let out = match std::process::Command::new(&bin).arg(t).output() {
            Ok(o) => o,
            Err(e) => {
                rep.inconclusive.push(format!("cannot spawn the CLI: {}", e));
                return rep;
            }
        };
        let so = String::from_utf8_lossy(&out.stdout).to_string();
        let first = |p: &str| so.lines().find_map(|l| l.strip_prefix(p).map(|x| x.trim().to_string()));
        let (e, c) = (first("> EXEC  :"), first("> CODE  :"));
        let case = json!({"program_text": t});
        match (e, c) {
            (Some(e), Some(c)) => {
                if e != c {
                    rep.fail(ctx, Fail::new("C02/cli/copy-does-not-preserve-the-program", format!("text {:?}: before the first step EXEC is {:?} but CODE is {:?}", t, e, c)), case);
                } else {
                    rep.nontrivial.insert(hash_str(t));
                    rep.sample(case);
                }
            }
            _ => rep.fail(ctx, Fail::new("C02/cli/no-trace", format!("text {:?}: the front end printed no EXEC / CODE trace line (exit {:?})", t, out.status.code())), case),
        }
    }
    rep
}

/// A single slow step (a harness instruction registered through InstructionSet::add that sleeps
/// 40 ms) overruns a 5 ms limit while items remain on EXEC: the run must stop with
/// TimeLimitExceeded (the limit has passed and the program is not finished), whatever the
/// number of remaining items. Sound for any machine speed: elapsed time only grows.
fn slow_step(ctx: &Ctx) -> SubReport {
    fn sleepy(_s: &mut pushr::push::state::PushState, _c: &pushr::push::instructions::InstructionCache) {
        std::thread::sleep(std::time::Duration::from_millis(40));
    }
    let mut rep = SubReport::new("time-limit-slow-step");
    for remaining in [1usize, 3, 10, 100, 400] {
        for lead in [0usize, 2] {
            let mut iset = pushr::push::instructions::InstructionSet::new();
            iset.load();
            iset.add("HARNESS.SLEEP".to_string(), pushr::push::instructions::Instruction::new(sleepy));
            let mut s = StateSpec::default();
            let mut prog: Vec<ItemSpec> = (0..lead).map(|_| ItemSpec::instr("NOOP")).collect();
            prog.push(ItemSpec::instr("HARNESS.SLEEP"));
            // the remaining items are integer literals: every executed step is visible on INTEGER
            prog.extend((0..remaining).map(|k| ItemSpec::Int(k as i32)));
            s.exec = prog;
            s.config.eval_push_limit = 100_000;
            s.config.eval_time_limit = 5;
            s.config.growth_cap = 500;
            let (mut real, _) = s.build();
            let r = guarded(|| PushInterpreter::run(&mut real, &mut iset));
            rep.evaluations += 1;
            let case = json!({"program": format!("{} x NOOP, HARNESS.SLEEP (40 ms), {} integer literals", lead, remaining), "eval_time_limit_ms": 5});
            match r {
                Err((loc, msg)) => rep.fail(ctx, Fail::new(format!("C02/time-limit/panic@{}", loc), msg), case),
                Ok(o) => {
                    // whatever the outcome, the state left behind is the state reached by single-
                    // stepping the program j times, for the j that was reached: j literals on
                    // INTEGER (top = the last one), the other remaining - j still on EXEC
                    let snap = StateSpec::snapshot(&real);
                    let j = snap.ints.len();
                    let want_ints: Vec<i32> = (0..j as i32).rev().collect();
                    let want_exec: Vec<ItemSpec> = (j..remaining).map(|k| ItemSpec::Int(k as i32)).collect();
                    if o != PushInterpreterState::TimeLimitExceeded {
                        rep.fail(ctx, Fail::new("C02/time-limit/not-reported-after-a-slow-step", format!("a 40 ms step overran the 5 ms limit with {} items left on EXEC but run() returned {:?}", remaining, o)), case);
                    } else if j > remaining || snap.ints != want_ints || snap.exec != want_exec {
                        rep.fail(
                            ctx,
                            Fail::new("C02/time-limit/state-is-not-a-single-stepped-state", format!("after TimeLimitExceeded INTEGER holds {:?} and EXEC {} items; single-stepping {} more steps after the slow one leaves {} items on EXEC", &snap.ints[..snap.ints.len().min(6)], snap.exec.len(), j, remaining.saturating_sub(j))),
                            case,
                        );
                    } else {
                        rep.nontrivial.insert((remaining * 10 + lead) as u64);
                        rep.sample(case);
                    }
                }
            }
        }
    }
    rep
}

pub fn run(ctx: &Ctx) -> PropReport {
    let mut rep = PropReport::new(
        "RAND-free programs (general trees over the registry, flat literal lists unpacked in one step, EXEC.Y loops, DUP/FLUSH/FROMINT mixes, several top-level EXEC items) x initial states with and without CODE content x eval_push_limit in {-1,0,1,2,3} u [0,L] x growth_cap in {0,1,2,3,5,10,500}; non-trivial = outcome other than NoErrors, or NoErrors after >= 5 steps; distinct = (state, program, limits) digest",
        "DIFF + INV: run() against an independent accounting of repeated step() calls (e = steps before completion, g = first step growing the nine main stacks by more than growth_cap): each outcome is admissible only under the stated conditions, the converse implications hold, and the final state equals the single-stepped state S[k] (CODE = EXEC items on top of the old CODE at S[0]). One wall-clock sub-check for TimeLimitExceeded.",
    );
    rep.assumptions.push("where the statement leaves the step count open (limit or limit+1 executed steps) both are accepted".into());
    rep.assumptions.push("cases whose single-stepping leaves the C01 resource envelope or meets a size operand > 4096 are abandoned before run() is called (counted as abandoned-*)".into());
    rep.assumptions.push("time-limit sub-check: a run slower than limit + 3 s is inconclusive, never a violation".into());
    let l = ctx.tier.pick(60, 400);
    rep.push(run_sharded(ctx, "run-vs-step", ctx.tier.pick(100_000, 1_000_000), move || case_strategy(l), judge, |c| json!({"state": c.state.to_json(), "program": c.state.exec.iter().map(|x| x.render()).collect::<Vec<_>>().join(" "), "eval_push_limit": c.state.config.eval_push_limit, "growth_cap": c.state.config.growth_cap})));
    rep.push(size_accounting(ctx, ctx.tier.pick(20_000, 200_000)));
    rep.push(time_limit(ctx));
    rep.push(slow_step(ctx));
    rep.push(custom_registries(ctx, ctx.tier.pick(20_000, 300_000)));
    rep.push(cli_copy(ctx));
    rep
}

pub fn replay(_ctx: &Ctx, _sub: &str, case: &Value) -> Result<(), Fail> {
    let bad = || Fail::new("replay-format", "cannot decode C02 case");
    let s = StateSpec::from_json(case.get("state").ok_or_else(bad)?).ok_or_else(bad)?;
    if _sub == "size-accounting" {
        let (st, _) = s.build();
        if st.size() != s.main_size() {
            return Err(Fail::new("C02/size/not-the-sum-of-the-typed-stacks", format!("{} vs {}", st.size(), s.main_size())));
        }
        return Ok(());
    }
    judge(&Case { state: s }).map(|_| ())
}
