//! C16 — the generic stack container behaves like a plain sequence.
//!
//! Oracle REF: Vec model with position 0 = top (= last element). After every operation the
//! return value and the full contents must equal the model's.

use crate::engine::*;
use crate::gen;
use crate::spec::{Fnv, ItemSpec};
use proptest::prelude::*;
use pushr::push::item::Item;
use pushr::push::stack::PushStack;
use serde_json::{json, Value};

/// Element abstraction so the same model serves PushStack<i32> and PushStack<Item>.
pub trait Elem: Clone + std::fmt::Debug + PartialEq {
    type Real: Clone + std::fmt::Display + PartialEq + pushr::push::stack::PushPrint;
    fn to_real(&self) -> Self::Real;
    fn from_real(r: &Self::Real) -> Self;
    fn printed(&self) -> String;
    /// documented meaning of `==` on the real type (Item: shallow / kind only)
    fn op_eq(&self, o: &Self) -> bool;
    fn to_json(&self) -> Value;
    fn from_json(v: &Value) -> Option<Self>;
}
impl Elem for i32 {
    type Real = i32;
    fn to_real(&self) -> i32 {
        *self
    }
    fn from_real(r: &i32) -> i32 {
        *r
    }
    fn printed(&self) -> String {
        self.to_string()
    }
    fn op_eq(&self, o: &Self) -> bool {
        self == o
    }
    fn to_json(&self) -> Value {
        json!(self)
    }
    fn from_json(v: &Value) -> Option<Self> {
        v.as_i64().map(|x| x as i32)
    }
}
fn kind(t: &ItemSpec) -> u8 {
    match t {
        ItemSpec::List(_) => 0,
        ItemSpec::Instr(_) => 1,
        ItemSpec::Name(_) => 2,
        ItemSpec::Int(_) => 3,
        ItemSpec::Float(_) => 4,
        ItemSpec::Bool(_) => 5,
        ItemSpec::BVec(_) => 6,
        ItemSpec::IVec(_) => 7,
        ItemSpec::FVec(_) => 8,
        ItemSpec::Index(_, _) => 9,
        ItemSpec::Graph(_) => 10,
    }
}
impl Elem for ItemSpec {
    type Real = Item;
    fn to_real(&self) -> Item {
        self.to_item()
    }
    fn from_real(r: &Item) -> ItemSpec {
        ItemSpec::from_item(r)
    }
    fn printed(&self) -> String {
        // the item's own Display: the concrete print format is not part of C16 ("printing lists
        // the items top first"), only the order of the items is
        self.to_item().to_string()
    }
    fn op_eq(&self, o: &Self) -> bool {
        kind(self) == kind(o)
    }
    fn to_json(&self) -> Value {
        ItemSpec::to_json(self)
    }
    fn from_json(v: &Value) -> Option<Self> {
        ItemSpec::from_json(v)
    }
}

#[derive(Clone, Debug)]
pub enum Op<T> {
    Push(T),
    Pop,
    PushFront(T),
    PopFront,
    PushVec(Vec<T>),
    PopVec(usize),
    CopyVec(usize),
    Get(usize),
    GetMutSet(usize, T),
    Copy(usize),
    Replace(usize, T),
    Remove(usize),
    Yank(usize),
    Shove(usize),
    Reverse,
    Flush,
    LastEq(T),
    EqualAt(usize, T),
    BottomMutSet(T),
    Size,
    ToString,
    FromVec(Vec<T>),
}
use Op::*;

impl<T: Elem> Op<T> {
    fn name(&self) -> &'static str {
        match self {
            Push(_) => "push",
            Pop => "pop",
            PushFront(_) => "push_front",
            PopFront => "pop_front",
            PushVec(_) => "push_vec",
            PopVec(_) => "pop_vec",
            CopyVec(_) => "copy_vec",
            Get(_) => "get",
            GetMutSet(_, _) => "get_mut",
            Copy(_) => "copy",
            Replace(_, _) => "replace",
            Remove(_) => "remove",
            Yank(_) => "yank",
            Shove(_) => "shove",
            Reverse => "reverse",
            Flush => "flush",
            LastEq(_) => "last_eq",
            EqualAt(_, _) => "equal_at",
            BottomMutSet(_) => "bottom_mut",
            Size => "size",
            ToString => "to_string",
            FromVec(_) => "from_vec",
        }
    }
    fn is_mutator(&self) -> bool {
        !matches!(self, CopyVec(_) | Get(_) | Copy(_) | LastEq(_) | EqualAt(_, _) | Size | ToString)
    }
    fn position(&self) -> Option<usize> {
        match self {
            PopVec(i) | CopyVec(i) | Get(i) | GetMutSet(i, _) | Copy(i) | Replace(i, _) | Remove(i) | Yank(i)
            | Shove(i) | EqualAt(i, _) => Some(*i),
            _ => None,
        }
    }
    fn to_json(&self) -> Value {
        match self {
            Push(v) | PushFront(v) | LastEq(v) | BottomMutSet(v) => json!({"op": self.name(), "v": v.to_json()}),
            PushVec(v) | FromVec(v) => json!({"op": self.name(), "vs": v.iter().map(|x| x.to_json()).collect::<Vec<_>>()}),
            PopVec(i) | CopyVec(i) | Get(i) | Copy(i) | Remove(i) | Yank(i) | Shove(i) => json!({"op": self.name(), "i": i}),
            GetMutSet(i, v) | Replace(i, v) | EqualAt(i, v) => json!({"op": self.name(), "i": i, "v": v.to_json()}),
            Pop | PopFront | Reverse | Flush | Size | ToString => json!({"op": self.name()}),
        }
    }
    fn from_json(j: &Value) -> Option<Op<T>> {
        let name = j.get("op")?.as_str()?;
        let v = || j.get("v").and_then(T::from_json);
        let i = || j.get("i").and_then(|x| x.as_u64()).map(|x| x as usize);
        let vs = || j.get("vs").and_then(|x| x.as_array()).and_then(|a| a.iter().map(T::from_json).collect::<Option<Vec<_>>>());
        Some(match name {
            "push" => Push(v()?),
            "pop" => Pop,
            "push_front" => PushFront(v()?),
            "pop_front" => PopFront,
            "push_vec" => PushVec(vs()?),
            "pop_vec" => PopVec(i()?),
            "copy_vec" => CopyVec(i()?),
            "get" => Get(i()?),
            "get_mut" => GetMutSet(i()?, v()?),
            "copy" => Copy(i()?),
            "replace" => Replace(i()?, v()?),
            "remove" => Remove(i()?),
            "yank" => Yank(i()?),
            "shove" => Shove(i()?),
            "reverse" => Reverse,
            "flush" => Flush,
            "last_eq" => LastEq(v()?),
            "equal_at" => EqualAt(i()?, v()?),
            "bottom_mut" => BottomMutSet(v()?),
            "size" => Size,
            "to_string" => ToString,
            "from_vec" => FromVec(vs()?),
            _ => return None,
        })
    }
}

/// Model: Vec with top = last element. Returns a canonical text of the operation's result.
fn model_apply<T: Elem>(m: &mut Vec<T>, op: &Op<T>) -> String {
    let len = m.len();
    let at = |i: usize| len - 1 - i; // valid only for i < len
    match op {
        Push(v) => {
            m.push(v.clone());
            "()".into()
        }
        Pop => fmt_opt(m.pop().as_ref()),
        PushFront(v) => {
            m.insert(0, v.clone());
            "()".into()
        }
        PopFront => {
            if m.is_empty() {
                "None".into()
            } else {
                fmt_opt(Some(&m.remove(0)))
            }
        }
        PushVec(vs) => {
            m.extend(vs.iter().cloned());
            "()".into()
        }
        PopVec(n) => {
            if *n > len {
                "None".into()
            } else {
                let tail = m.split_off(len - n);
                fmt_vec(Some(&tail))
            }
        }
        CopyVec(n) => {
            if *n > len {
                "None".into()
            } else {
                fmt_vec(Some(&m[len - n..].to_vec()))
            }
        }
        Get(i) | Copy(i) => {
            if *i < len {
                fmt_opt(Some(&m[at(*i)]))
            } else {
                "None".into()
            }
        }
        GetMutSet(i, v) => {
            if *i < len {
                let old = m[at(*i)].clone();
                m[at(*i)] = v.clone();
                fmt_opt(Some(&old))
            } else {
                "None".into()
            }
        }
        Replace(i, v) => {
            if *i < len {
                m[at(*i)] = v.clone();
                "Ok".into()
            } else {
                format!("Err({})", (i - len).saturating_add(1))
            }
        }
        Remove(i) => {
            if *i < len {
                m.remove(at(*i));
            }
            "()".into()
        }
        Yank(i) => {
            if *i < len {
                let e = m.remove(at(*i));
                m.push(e);
            }
            "()".into()
        }
        Shove(i) => {
            if *i < len {
                let e = m.pop().unwrap();
                // new position i from the top: i elements above it
                m.insert(len - 1 - i, e);
            }
            "()".into()
        }
        Reverse => {
            m.reverse();
            "()".into()
        }
        Flush => {
            m.clear();
            "()".into()
        }
        LastEq(v) => format!("{}", m.last().map(|t| t.op_eq(v)).unwrap_or(false)),
        EqualAt(i, v) => {
            if *i < len {
                format!("Some({})", m[at(*i)].printed() == v.printed())
            } else {
                "None".into()
            }
        }
        BottomMutSet(v) => {
            if len > 0 {
                let old = m[0].clone();
                m[0] = v.clone();
                fmt_opt(Some(&old))
            } else {
                "None".into()
            }
        }
        Size => format!("{}", len),
        ToString => m.iter().rev().map(|x| x.printed()).collect::<Vec<_>>().join(" ").split_whitespace().collect::<Vec<_>>().join(" "),
        FromVec(vs) => {
            *m = vs.clone();
            "()".into()
        }
    }
}
fn fmt_opt<T: Elem>(v: Option<&T>) -> String {
    match v {
        Some(x) => format!("Some({})", x.printed()),
        None => "None".into(),
    }
}
fn fmt_vec<T: Elem>(v: Option<&Vec<T>>) -> String {
    match v {
        Some(x) => format!("Some([{}])", x.iter().map(|e| e.printed()).collect::<Vec<_>>().join(";")),
        None => "None".into(),
    }
}

fn real_apply<T: Elem>(s: &mut PushStack<T::Real>, op: &Op<T>) -> String {
    let fo = |v: Option<T::Real>| fmt_opt(v.map(|x| T::from_real(&x)).as_ref());
    let fv = |v: Option<Vec<T::Real>>| fmt_vec(v.map(|x| x.iter().map(T::from_real).collect::<Vec<T>>()).as_ref());
    match op {
        Push(v) => {
            s.push(v.to_real());
            "()".into()
        }
        Pop => fo(s.pop()),
        PushFront(v) => {
            s.push_front(v.to_real());
            "()".into()
        }
        PopFront => fo(s.pop_front()),
        PushVec(vs) => {
            s.push_vec(vs.iter().map(|x| x.to_real()).collect());
            "()".into()
        }
        PopVec(n) => fv(s.pop_vec(*n)),
        CopyVec(n) => fv(s.copy_vec(*n)),
        Get(i) => fo(s.get(*i).cloned()),
        Copy(i) => fo(s.copy(*i)),
        GetMutSet(i, v) => match s.get_mut(*i) {
            Some(r) => {
                let old = r.clone();
                *r = v.to_real();
                fo(Some(old))
            }
            None => "None".into(),
        },
        Replace(i, v) => match s.replace(*i, v.to_real()) {
            Ok(()) => "Ok".into(),
            Err(d) => format!("Err({})", d),
        },
        Remove(i) => {
            s.remove(*i);
            "()".into()
        }
        Yank(i) => {
            s.yank(*i);
            "()".into()
        }
        Shove(i) => {
            s.shove(*i);
            "()".into()
        }
        Reverse => {
            s.reverse();
            "()".into()
        }
        Flush => {
            s.flush();
            "()".into()
        }
        LastEq(v) => format!("{}", s.last_eq(&v.to_real())),
        EqualAt(i, v) => match s.equal_at(*i, &v.to_real()) {
            Some(b) => format!("Some({})", b),
            None => "None".into(),
        },
        BottomMutSet(v) => match s.bottom_mut() {
            Some(r) => {
                let old = r.clone();
                *r = v.to_real();
                fo(Some(old))
            }
            None => "None".into(),
        },
        Size => format!("{}", s.size()),
        ToString => s.to_string().split_whitespace().collect::<Vec<_>>().join(" "),
        FromVec(vs) => {
            *s = PushStack::from_vec(vs.iter().map(|x| x.to_real()).collect());
            "()".into()
        }
    }
}

fn contents<T: Elem>(s: &PushStack<T::Real>) -> Option<Vec<T>> {
    // bottom .. top, via the public bulk copy
    s.copy_vec(s.size()).map(|v| v.iter().map(T::from_real).collect())
}

/// Apply one op to both sides and compare result + full contents.
fn step_both<T: Elem>(s: &mut PushStack<T::Real>, m: &mut Vec<T>, op: &Op<T>) -> Result<(), Fail> {
    let expected = model_apply(m, op);
    let got = match guarded(|| real_apply::<T>(s, op)) {
        Ok(g) => g,
        Err((loc, msg)) => {
            return Err(Fail::new(
                format!("C16/{}/panic", op.name()),
                format!("{} panicked at {} ({}); model result {}", op.name(), loc, msg, expected),
            ))
        }
    };
    if got != expected {
        return Err(Fail::new(
            format!("C16/{}/result", op.name()),
            format!("{:?}: returned {} but a plain sequence gives {}", op, got, expected),
        ));
    }
    let c = contents::<T>(s);
    if c.as_ref() != Some(m) || s.size() != m.len() {
        return Err(Fail::new(
            format!("C16/{}/contents", op.name()),
            format!("after {:?}: contents (bottom..top) {:?}, model {:?}", op, c, m),
        ));
    }
    Ok(())
}

fn run_sequence<T: Elem>(ops: &[Op<T>]) -> CaseResult {
    let mut s: PushStack<T::Real> = PushStack::new();
    let mut m: Vec<T> = vec![];
    let mut mutators = 0;
    let mut edge = false;
    let mut h = Fnv::new();
    for op in ops {
        if let Some(p) = op.position() {
            if p >= m.len() {
                edge = true;
            }
        }
        if op.is_mutator() {
            mutators += 1;
        }
        h.str(&format!("{:?}", op));
        step_both(&mut s, &mut m, op)?;
    }
    // final observers
    for op in [Op::<T>::Size, Op::<T>::ToString] {
        step_both(&mut s, &mut m, &op)?;
    }
    Ok(CaseOut::new(edge && mutators >= 3, h.0).class(format!("len{}", (ops.len() / 25) * 25)))
}

fn op_strategy<T: Elem + 'static>(val: BoxedStrategy<T>) -> BoxedStrategy<Op<T>> {
    // positions inside, just outside and absurdly far outside the stack
    let pos = prop_oneof![16 => 0usize..6, 4 => 0usize..40, 2 => 30usize..100, 1 => prop::sample::select(vec![usize::MAX, usize::MAX - 1, usize::MAX / 2 + 1, 1usize << 32])].boxed();
    // mostly short blocks; one in four is a bulk block (longer than a small stack, past 16 / 32 elements)
    let vs = prop_oneof![3 => prop::collection::vec(val.clone(), 0..4), 1 => prop::collection::vec(val.clone(), 4..48)];
    prop_oneof![
        6 => val.clone().prop_map(Push),
        3 => Just(Pop),
        2 => val.clone().prop_map(PushFront),
        2 => Just(PopFront),
        2 => vs.clone().prop_map(PushVec),
        2 => pos.clone().prop_map(PopVec),
        2 => pos.clone().prop_map(CopyVec),
        2 => pos.clone().prop_map(Get),
        2 => (pos.clone(), val.clone()).prop_map(|(i, v)| GetMutSet(i, v)),
        2 => pos.clone().prop_map(Copy),
        2 => (pos.clone(), val.clone()).prop_map(|(i, v)| Replace(i, v)),
        2 => pos.clone().prop_map(Remove),
        3 => pos.clone().prop_map(Yank),
        3 => pos.clone().prop_map(Shove),
        1 => Just(Reverse),
        1 => Just(Flush),
        1 => val.clone().prop_map(LastEq),
        2 => (pos.clone(), val.clone()).prop_map(|(i, v)| EqualAt(i, v)),
        1 => val.clone().prop_map(BottomMutSet),
        1 => Just(Size),
        1 => Just(ToString),
        1 => vs.prop_map(FromVec),
    ]
    .boxed()
}

/// Exhaustive DFS: every mutator sequence up to `depth`, and at every reached state every
/// observer (observers do not change the state, which is itself checked).
fn exhaustive(ctx: &Ctx, depth: usize) -> SubReport {
    fn mutators(len: usize) -> Vec<Op<i32>> {
        let mut v = vec![Push(1), Push(2), Pop, PushFront(1), PushFront(2), PopFront, PushVec(vec![1, 2]), PushVec(vec![]), Reverse, Flush, BottomMutSet(7)];
        for i in 0..=len + 2 {
            v.push(PopVec(i));
            v.push(GetMutSet(i, 9));
            v.push(Replace(i, 1));
            v.push(Replace(i, 2));
            v.push(Remove(i));
            v.push(Yank(i));
            v.push(Shove(i));
        }
        v
    }
    fn observers(len: usize) -> Vec<Op<i32>> {
        let mut v = vec![Size, ToString, LastEq(1), LastEq(2)];
        for i in 0..=len + 2 {
            v.push(CopyVec(i));
            v.push(Get(i));
            v.push(Copy(i));
            v.push(EqualAt(i, 1));
            v.push(EqualAt(i, 2));
        }
        v
    }
    fn dfs(ctx: &Ctx, s: &PushStack<i32>, m: &Vec<i32>, path: &mut Vec<Op<i32>>, left: usize, rep: &mut SubReport) {
        // observers at this node
        for ob in observers(m.len()) {
            let mut s2 = s.clone();
            let mut m2 = m.clone();
            rep.evaluations += 1;
            if let Err(f) = step_both(&mut s2, &mut m2, &ob) {
                let mut p = path.clone();
                p.push(ob.clone());
                rep.fail(ctx, f, json!({"elem": "int", "ops": p.iter().map(|o| o.to_json()).collect::<Vec<_>>()}));
            }
        }
        if left == 0 {
            return;
        }
        for mu in mutators(m.len()) {
            let mut s2 = s.clone();
            let mut m2 = m.clone();
            rep.evaluations += 1;
            path.push(mu.clone());
            let edge = mu.position().map(|p| p >= m.len()).unwrap_or(false);
            match step_both(&mut s2, &mut m2, &mu) {
                Ok(()) => {
                    if edge || path.len() >= 3 {
                        rep.nontrivial_extra += 1;
                    }
                    dfs(ctx, &s2, &m2, path, left - 1, rep);
                }
                Err(f) => {
                    rep.fail(ctx, f, json!({"elem": "int", "ops": path.iter().map(|o| o.to_json()).collect::<Vec<_>>()}));
                }
            }
            path.pop();
        }
    }
    // parallelise over the first mutator
    let firsts = mutators(0);
    let n = firsts.len() as u64;
    let mut rep = par_map(ctx, "exhaustive-int", n, |i, rep| {
        let mu = firsts[i as usize].clone();
        let mut s: PushStack<i32> = PushStack::new();
        let mut m: Vec<i32> = vec![];
        let mut path = vec![mu.clone()];
        rep.evaluations += 1;
        match step_both(&mut s, &mut m, &mu) {
            Ok(()) => dfs(ctx, &s, &m, &mut path, depth - 1, rep),
            Err(f) => rep.fail(ctx, f, json!({"elem": "int", "ops": [mu.to_json()]})),
        }
    });
    rep.exhaustive = true;
    rep.notes.push(format!(
        "all mutator sequences of length <= {} over values {{1,2}} and positions 0..len+2, with every observer applied at every reached state",
        depth
    ));
    rep.sample(json!({"elem":"int","ops":[Push(1).to_json(), Shove::<i32>(1).to_json(), EqualAt(1, 1).to_json()]}));
    rep
}

/// Deep stacks: the container is documented without a capacity. Fill to `n` items through each
/// of the three ways of adding (push, push_front, push_vec in chunks), compare size, both ends,
/// probes in the middle and the full contents with the model, then drain by pop / pop_front /
/// pop_vec and compare again.
fn deep(ctx: &Ctx) -> SubReport {
    let sizes: Vec<usize> = ctx.tier.pick(vec![999, 1000, 1001, 4097, 10_000, 10_001, 25_000], vec![999, 1000, 1001, 4097, 10_000, 10_001, 25_000, 65_536, 65_537, 300_000]);
    let work: Vec<(usize, u8)> = sizes.iter().flat_map(|n| (0u8..3).map(move |how| (*n, how))).collect();
    par_map(ctx, "deep-stacks", work.len() as u64, |wi, rep| {
        let (n, how) = work[wi as usize];
        let mut s: PushStack<i32> = PushStack::new();
        let mut m: Vec<i32> = vec![]; // bottom .. top
        let filled_by = ["push", "push_front", "push_vec"][how as usize];
        let case = json!({"items": n, "filled_by": filled_by});
        let r = guarded(|| {
            match how {
                0 => {
                    for i in 0..n as i32 {
                        s.push(i);
                        m.push(i);
                    }
                }
                1 => {
                    for i in 0..n as i32 {
                        s.push_front(i);
                        m.insert(0, i);
                        if m.len() > 30_000 {
                            break; // insert(0) on the model is quadratic
                        }
                    }
                }
                _ => {
                    let mut i = 0i32;
                    while m.len() < n {
                        let k = (n - m.len()).min(777);
                        let chunk: Vec<i32> = (i..i + k as i32).collect();
                        s.push_vec(chunk.clone());
                        m.extend(chunk);
                        i += k as i32;
                    }
                }
            }
            let mut problems = vec![];
            if s.size() != m.len() {
                problems.push(format!("size() = {} after adding {} items", s.size(), m.len()));
            }
            let got: Vec<i32> = (0..s.size()).rev().filter_map(|p| s.get(p).cloned()).collect();
            if got != m {
                let first = got.iter().zip(m.iter()).position(|(a, b)| a != b).unwrap_or(got.len().min(m.len()));
                problems.push(format!("contents differ from the model from position {} above the bottom (lengths {} / {})", first, got.len(), m.len()));
            }
            for p in [0usize, 1, m.len() / 2, m.len().saturating_sub(1), m.len()] {
                let want = if p < m.len() { Some(m[m.len() - 1 - p]) } else { None };
                if s.copy(p) != want {
                    problems.push(format!("copy({}) = {:?}, model {:?}", p, s.copy(p), want));
                }
            }
            // drain
            let half = m.len() / 2;
            let popped = s.pop_vec(half);
            let want: Option<Vec<i32>> = if half <= m.len() { Some(m.split_off(m.len() - half)) } else { None };
            if popped != want {
                problems.push(format!("pop_vec({}) differs from the model", half));
            }
            let mut k = 0;
            while let Some(x) = s.pop() {
                if m.pop() != Some(x) {
                    problems.push(format!("pop #{} returned {} but the model disagrees", k, x));
                    break;
                }
                k += 1;
            }
            if !m.is_empty() {
                problems.push(format!("stack empty but the model still holds {} items", m.len()));
            }
            problems
        });
        rep.evaluations += 1;
        match r {
            Err((l, msg)) => rep.fail(ctx, Fail::new("C16/deep/panic", format!("panicked at {}: {}", l, msg)), case),
            Ok(p) if !p.is_empty() => rep.fail(ctx, Fail::new("C16/deep/contents", format!("{} items filled by {}: {}", n, ["push", "push_front", "push_vec"][how as usize], p.join("; "))), case),
            Ok(_) => {
                rep.nontrivial.insert((n as u64) << 2 | how as u64);
                if n == 1000 {
                    rep.sample(case);
                }
            }
        }
    })
}

fn case_json<T: Elem>(elem: &str, ops: &Vec<Op<T>>) -> Value {
    json!({"elem": elem, "ops": ops.iter().map(|o| o.to_json()).collect::<Vec<_>>()})
}

pub fn run(ctx: &Ctx) -> PropReport {
    let mut rep = PropReport::new(
        "operation sequences over the public PushStack API; non-trivial = the sequence uses a position >= current length (out of range or = len) and has >= 3 mutating operations; distinct = hash of the operation sequence (exhaustive part: distinct by construction, counted)",
        "REF oracle: Vec model with position 0 = top; return value and full contents compared after every operation, for element types i32 and nested Item.",
    );
    rep.assumptions.push("raw swap(i,j) is excluded: documented to take vector indices, not stack positions".into());
    rep.push(exhaustive(ctx, ctx.tier.pick(4, 5)));
    rep.push(deep(ctx));
    let n = ctx.tier.pick(40_000, 400_000);
    let maxlen = ctx.tier.pick(120usize, 200usize);
    rep.push(run_sharded(
        ctx,
        "random-int",
        n,
        || prop::collection::vec(op_strategy::<i32>(prop_oneof![3 => 0i32..4, 1 => gen::int_pool()].boxed()), 0..maxlen),
        |ops: &Vec<Op<i32>>| run_sequence(ops),
        |ops| case_json("int", ops),
    ));
    rep.push(run_sharded(
        ctx,
        "random-item",
        n / 2,
        || {
            let kinds = gen::AtomKinds { vectors: true, ..gen::AtomKinds::all(vec!["NOOP".into(), "INTEGER.+".into(), "CODE.DO".into()]) };
            // items that print alike although they are of different kinds (the equality probe
            // equal_at is documented as a comparison of printed forms)
            let twins = prop::sample::select(vec![
                ItemSpec::name("NOOP"), ItemSpec::instr("NOOP"), ItemSpec::name("1"), ItemSpec::Int(1), ItemSpec::name("TRUE"), ItemSpec::Bool(true), ItemSpec::Float(f32::NAN), ItemSpec::name("NaN"),
                ItemSpec::List(vec![ItemSpec::name("CODE.DO")]), ItemSpec::List(vec![ItemSpec::instr("CODE.DO")]),
            ]);
            prop::collection::vec(op_strategy::<ItemSpec>(prop_oneof![6 => gen::tree(&kinds, 3, 8, 3), 2 => twins].boxed()), 0..maxlen / 2)
        },
        |ops: &Vec<Op<ItemSpec>>| run_sequence(ops),
        |ops| case_json("item", ops),
    ));
    rep
}

pub fn replay(ctx: &Ctx, sub: &str, case: &Value) -> Result<(), Fail> {
    if sub == "deep-stacks" {
        let r = deep(ctx);
        return match r.violations.first() {
            Some(v) => Err(Fail::new(v.signature.clone(), v.detail.clone())),
            None => Ok(()),
        };
    }
    let bad = || Fail::new("replay-format", "cannot decode C16 case");
    let elem = case.get("elem").and_then(|x| x.as_str()).ok_or_else(bad)?;
    let ops = case.get("ops").and_then(|x| x.as_array()).ok_or_else(bad)?;
    if elem == "int" {
        let ops: Vec<Op<i32>> = ops.iter().map(Op::from_json).collect::<Option<Vec<_>>>().ok_or_else(bad)?;
        run_sequence(&ops).map(|_| ())
    } else {
        let ops: Vec<Op<ItemSpec>> = ops.iter().map(Op::from_json).collect::<Option<Vec<_>>>().ok_or_else(bad)?;
        run_sequence(&ops).map(|_| ())
    }
}
