//! C12 — random code has the requested size and is built from the given instructions.
//! pushr's generator cannot be seeded: every assertion is a per-draw invariant (any failing
//! draw is a real counter-example; parameters and the offending output are stored).

use crate::engine::*;
use crate::exec::with_machine;
use crate::gen;
use crate::props::c01::step_program;
use crate::props::c03::parse_into;
use crate::spec::*;
use pushr::push::instructions::InstructionCache;
use pushr::push::item::Item;
use pushr::push::random::CodeGenerator;
use serde_json::{json, Value};
use std::collections::BTreeMap;

#[derive(Clone, Debug)]
pub struct Setting {
    pub instr: u8,     // 0 empty, 1 one name, 2 full registry
    pub bindings: u8,  // 0, 1, 5 names
    pub pnew: f32,
    /// makes the bound names of different work items different (same table size)
    pub salt: u32,
}
impl Setting {
    /// the instruction list as supplied by the caller (the leaves are judged against this, not
    /// against what the cache object reports)
    fn supplied(&self) -> Vec<String> {
        match self.instr {
            0 => vec![],
            1 => vec!["FLOAT.TAN".to_string()],
            // a caller's own list: not upper case, a duplicate, unsorted
            3 => ["my.double", "Sensor.Read", "NOOP", "zz.last", "NOOP", "x"].iter().map(|s| s.to_string()).collect(),
            _ => crate::exec::registry_names(),
        }
    }
    fn cache(&self) -> InstructionCache {
        InstructionCache::new(self.supplied())
    }
    fn state(&self) -> StateSpec {
        let mut s = StateSpec::default();
        for i in 0..self.bindings {
            s.bindings.insert(format!("bound{}x{}", i, self.salt), ItemSpec::Int(i as i32));
        }
        s.config.new_erc_name_probability = self.pnew;
        // the generator's size and leaf clauses hold for every configuration: a third of the work
        // items run with an empty, a third with a reversed INTEGER / FLOAT random range
        match self.salt % 3 {
            1 => {
                s.config.min_random_integer = 5;
                s.config.max_random_integer = 5;
                s.config.min_random_float = 0.5;
                s.config.max_random_float = 0.5;
            }
            2 => {
                s.config.min_random_integer = 10;
                s.config.max_random_integer = -10;
                s.config.min_random_float = 2.0;
                s.config.max_random_float = -2.0;
            }
            _ => {}
        }
        s
    }
    fn to_json(&self) -> Value {
        let il = ["empty", "one name", "full registry", "caller's own names"][self.instr as usize];
        json!({"instruction_list": il, "bound_names": self.bindings, "new_erc_name_probability": fjson(self.pnew), "salt": self.salt})
    }
    fn from_json(v: &Value) -> Option<Setting> {
        let il = v.get("instruction_list")?.as_str()?;
        Some(Setting {
            instr: match il {
                "empty" => 0,
                "one name" => 1,
                "caller's own names" => 3,
                _ => 2,
            },
            bindings: v.get("bound_names")?.as_u64()? as u8,
            pnew: fparse(v.get("new_erc_name_probability")?)?,
            salt: v.get("salt").and_then(|x| x.as_u64()).unwrap_or(0) as u32,
        })
    }
}

#[derive(Default)]
struct LeafStats {
    kinds: BTreeMap<&'static str, u64>,
    lists: u64,
    leaves: u64,
}

fn check_leaves(t: &ItemSpec, set: &Setting, allowed: &[String], st: &mut LeafStats) -> Result<(), Fail> {
    for x in t.preorder() {
        match x {
            ItemSpec::List(_) => st.lists += 1,
            ItemSpec::Instr(n) => {
                st.leaves += 1;
                *st.kinds.entry("instruction").or_insert(0) += 1;
                let ok = if allowed.is_empty() { n == "NOOP" } else { allowed.contains(n) };
                if !ok {
                    return Err(Fail::new("C12/leaf/instruction-not-from-supplied-list", format!("leaf {} with instruction list {:?}", n, &allowed[..allowed.len().min(3)])));
                }
            }
            ItemSpec::Bool(_) => {
                st.leaves += 1;
                *st.kinds.entry("bool").or_insert(0) += 1;
            }
            ItemSpec::Int(_) => {
                st.leaves += 1;
                *st.kinds.entry("int").or_insert(0) += 1;
            }
            ItemSpec::Float(f) => {
                st.leaves += 1;
                *st.kinds.entry("float").or_insert(0) += 1;
                if !(*f >= 0.0 && *f < 1.0) {
                    return Err(Fail::new("C12/leaf/float-outside-unit-interval", format!("float leaf {}", f)));
                }
            }
            ItemSpec::Name(n) => {
                st.leaves += 1;
                *st.kinds.entry("name").or_insert(0) += 1;
                let bound = (0..set.bindings).any(|i| *n == format!("bound{}x{}", i, set.salt));
                let may_be_new = set.bindings == 0 || (set.pnew > 0.0 && (set.pnew * 10000.0) as u32 > 0);
                if !bound && !may_be_new {
                    return Err(Fail::new("C12/leaf/name-not-bound", format!("name leaf {} although {} names are bound and the new-name probability is {}", n, set.bindings, set.pnew)));
                }
            }
            other => {
                return Err(Fail::new("C12/leaf/unexpected-kind", format!("leaf {}", other.render())));
            }
        }
    }
    Ok(())
}

/// the generated program is itself executable (C01) and printable/parsable (C11)
fn feed_forward(t: &ItemSpec) -> Result<(), Fail> {
    let mut s = StateSpec::default();
    s.exec = vec![t.clone()];
    s.ints = vec![2, 1];
    s.floats = vec![0.5];
    crate::supervise::journal_program("C12", &s, 200, "step");
    let (mut st, _) = s.build();
    if let Err((label, loc, msg)) = with_machine(|m| step_program(&mut st, m, 200)) {
        return Err(Fail::new(format!("C12/generated-program-panics/{}@{}", label, loc), format!("{} | program {}", msg, t.render())));
    }
    crate::supervise::journal_clear();
    let text = guarded(|| t.to_item().to_string()).map_err(|(l, m)| Fail::new(format!("C12/print-panics@{}", l), m))?;
    let parsed = parse_into(&StateSpec::default(), &text).map_err(|(l, m)| Fail::new(format!("C12/parse-panics@{}", l), m))?;
    let text2 = parsed.exec.iter().map(|x| x.to_item().to_string()).collect::<Vec<_>>().join(" ");
    if text2 != text {
        return Err(Fail::new("C12/generated-program-does-not-round-trip", format!("{:?} -> {:?}", text, text2)));
    }
    Ok(())
}

fn draw_with_size(set: &Setting, n: usize, st: &mut LeafStats) -> Result<ItemSpec, Fail> {
    let cache = set.cache();
    let spec = set.state();
    let (state, _) = spec.build();
    let item = guarded(|| CodeGenerator::random_code_with_size(&state, &cache, n)).map_err(|(l, m)| Fail::new(format!("C12/random_code_with_size/panic@{}", l), format!("size {}: {}", n, m)))?;
    let t = ItemSpec::from_item(&item);
    if Item::size(&item) != n || t.points() != n {
        return Err(Fail::new("C12/random_code_with_size/wrong-size", format!("requested {} points, Item::size = {}, counted = {} | {}", n, Item::size(&item), t.points(), t.render())));
    }
    check_leaves(&t, set, &set.supplied(), st)?;
    Ok(t)
}

fn settings() -> Vec<Setting> {
    let mut v = vec![];
    for instr in 0..4u8 {
        for bindings in [0u8, 1, 5] {
            for pnew in [0.0f32, 0.001, 0.5, 1.0, f32::NAN] {
                v.push(Setting { instr, bindings, pnew, salt: 0 });
            }
        }
    }
    v
}

fn size_checks(ctx: &Ctx, draws: u64) -> SubReport {
    let sets = settings();
    let mut sizes: Vec<usize> = (1..=64).collect();
    sizes.extend([100, 235, 1034]);
    let work: Vec<(usize, usize)> = (0..sets.len()).flat_map(|s| sizes.iter().map(move |n| (s, *n))).collect();
    let per = (draws / 8).max(2);
    let stats: std::sync::Mutex<BTreeMap<usize, LeafStats>> = std::sync::Mutex::new(BTreeMap::new());
    let mut rep = par_map(ctx, "exact-size", work.len() as u64, |wi, rep| {
        let (si, n) = work[wi as usize];
        let set = &Setting { salt: wi as u32, ..sets[si].clone() };
        let mut ls = LeafStats::default();
        let k = if n > 64 { 3 } else { per };
        for d in 0..k {
            rep.evaluations += 1;
            match draw_with_size(set, n, &mut ls) {
                Ok(t) => {
                    if n >= 3 {
                        rep.nontrivial.insert(hash_str(&t.render()));
                    }
                    if d == 0 {
                        if let Err(f) = feed_forward(&t) {
                            rep.fail(ctx, f, json!({"kind": "with_size", "setting": set.to_json(), "size": n, "item": t.to_json(), "text": t.render()}));
                        }
                        if wi % 397 == 0 {
                            rep.sample(json!({"setting": set.to_json(), "size": n, "text": t.render()}));
                        }
                    }
                }
                Err(f) => rep.fail(ctx, f, json!({"kind": "with_size", "setting": set.to_json(), "size": n})),
            }
        }
        let mut g = stats.lock().unwrap();
        let e = g.entry(si).or_default();
        for (k, v) in ls.kinds {
            *e.kinds.entry(k).or_insert(0) += v;
        }
        e.lists += ls.lists;
        e.leaves += ls.leaves;
    });
    // coverage: every leaf kind and both shapes appear per setting (false-alarm bound: each kind has
    // probability >= 1/6 per leaf; with >= 400 leaves P(miss) <= 5 * (5/6)^400 < 1e-30)
    let g = stats.lock().unwrap();
    for (si, ls) in g.iter() {
        if ls.leaves >= 400 {
            for kind in ["instruction", "bool", "int", "float", "name"] {
                if ls.kinds.get(kind).cloned().unwrap_or(0) == 0 {
                    rep.fail(ctx, Fail::new(format!("C12/coverage/no-{}-leaf", kind), format!("{} leaves drawn for setting {:?} and none is a {}", ls.leaves, sets[*si], kind)), json!({"kind": "coverage", "setting": sets[*si].to_json()}));
                }
            }
            if ls.lists == 0 {
                rep.fail(ctx, Fail::new("C12/coverage/no-list", "no list generated"), json!({"kind": "coverage", "setting": sets[*si].to_json()}));
            }
        }
    }
    rep.notes.push(format!("{} settings (instruction list x binding table x new-name probability) x sizes 1..64, 100, 235, 1034; {} draws per (setting, size)", sets.len(), per));
    rep
}

fn bound_checks(ctx: &Ctx, draws: u64) -> SubReport {
    let sets = settings();
    let work: Vec<(usize, usize)> = (0..sets.len()).flat_map(|s| (0..=40usize).map(move |m| (s, m))).collect();
    let per = (draws / 10).max(2);
    let mut rep = par_map(ctx, "upper-bound", work.len() as u64, |wi, rep| {
        let (si, m) = work[wi as usize];
        let set = &sets[si];
        let cache = set.cache();
        let (state, _) = set.state().build();
        for _ in 0..per {
            rep.evaluations += 1;
            let case = json!({"kind": "bound", "setting": set.to_json(), "bound": m});
            match guarded(|| CodeGenerator::random_code(&state, &cache, m)) {
                Err((l, msg)) => rep.fail(ctx, Fail::new(format!("C12/random_code/panic@{}", l), format!("bound {}: {}", m, msg)), case),
                Ok(None) => {
                    if m >= 2 {
                        rep.fail(ctx, Fail::new("C12/random_code/none-for-bound>=2", format!("bound {}", m)), case);
                    }
                }
                Ok(Some(item)) => {
                    let p = Item::size(&item);
                    if m <= 1 {
                        rep.fail(ctx, Fail::new("C12/random_code/some-for-bound<=1", format!("bound {} gave {} points", m, p)), case);
                    } else if p < 1 || p > m - 1 {
                        rep.fail(ctx, Fail::new("C12/random_code/points-outside-1..bound-1", format!("bound {} gave {} points", m, p)), case);
                    } else if m >= 4 {
                        rep.nontrivial.insert(hash_str(&ItemSpec::from_item(&item).render()));
                    }
                }
            }
        }
    });
    rep.notes.push(format!("bounds 0..40 x {} settings, {} draws each", sets.len(), per));
    rep.sample(json!({"kind": "bound", "bound": 7}));
    rep
}

fn code_rand_checks(ctx: &Ctx, draws: u64) -> SubReport {
    let maxps = [-25i32, 0, 1, 2, 3, 25];
    let mut operands: Vec<i32> = gen::INT_BOUNDARY.to_vec();
    operands.extend([6, 10, 24, 25, 26, 30, -24, -26]);
    let work: Vec<(i32, i32)> = maxps.iter().flat_map(|m| operands.iter().map(move |o| (*m, *o))).collect();
    let per = (draws / 10).max(2);
    let mut rep = par_map(ctx, "CODE.RAND", work.len() as u64, |wi, rep| {
        let (maxp, operand) = work[wi as usize];
        for d in 0..per {
            let mut s = StateSpec::default();
            s.ints = vec![operand, 77];
            s.code = vec![ItemSpec::name("bystander")];
            s.config.max_points_in_random_expressions = maxp;
            if d % 2 == 0 {
                s.bindings.insert(format!("bound0x{}", wi), ItemSpec::Int(0));
            }
            rep.evaluations += 1;
            let case = json!({"kind": "CODE.RAND", "operand": operand, "max_points_in_random_expressions": maxp, "state": s.to_json()});
            crate::supervise::journal_instr("C12", "CODE.RAND", &s);
            let after = match crate::exec::step_named_on(&s, "CODE.RAND") {
                Ok(a) => a,
                Err((l, m)) => {
                    rep.fail(ctx, Fail::new(format!("C12/CODE.RAND/panic@{}", l), format!("operand {} max points {}: {}", operand, maxp, m)), case);
                    continue;
                }
            };
            let lim = (operand as i64).abs().min((maxp as i64).abs());
            let new_items = after.code.len() as i64 - s.code.len() as i64;
            let mut expect = s.clone();
            expect.ints.remove(0);
            let mut got = after.clone();
            if new_items == 1 {
                got.code.remove(0);
            }
            if new_items < 0 || new_items > 1 || got != expect {
                rep.fail(ctx, Fail::new("C12/CODE.RAND/shape", format!("operand {} max points {}: {}", operand, maxp, expect.diff(&got).unwrap_or_else(|| format!("{} new CODE items", new_items)))), case);
                continue;
            }
            if new_items == 1 {
                let p = after.code[0].points() as i64;
                if p > (operand as i64).abs() || p > (maxp as i64).abs() {
                    rep.fail(ctx, Fail::new("C12/CODE.RAND/too-many-points", format!("operand {} max points {}: item with {} points", operand, maxp, p)), case);
                    continue;
                }
                if lim <= 1 {
                    rep.fail(ctx, Fail::new("C12/CODE.RAND/item-for-limit<=1", format!("operand {} max points {}", operand, maxp)), case);
                    continue;
                }
                rep.nontrivial.insert(hash_str(&after.code[0].render()));
            } else if lim >= 2 {
                rep.fail(ctx, Fail::new("C12/CODE.RAND/no-item-for-limit>=2", format!("operand {} max points {}", operand, maxp)), case);
            }
        }
    });
    rep.notes.push(format!("{} (max_points_in_random_expressions, operand) pairs x {} draws", work.len(), per));
    rep.sample(json!({"kind": "CODE.RAND", "operand": 25, "max_points_in_random_expressions": 3}));
    rep
}

fn decompose_checks(ctx: &Ctx, draws: u64) -> SubReport {
    let mut rep = par_map(ctx, "decompose", 64, |k, rep| {
        let k = k as usize + 1;
        for _ in 0..draws {
            rep.evaluations += 1;
            let mut parts: Vec<usize> = vec![];
            let case = json!({"kind": "decompose", "k": k});
            match guarded(|| CodeGenerator::decompose(&mut parts, k)) {
                Err((l, m)) => rep.fail(ctx, Fail::new(format!("C12/decompose/panic@{}", l), format!("k = {}: {}", k, m)), case),
                Ok(()) => {
                    if parts.iter().any(|p| *p < 1) || parts.iter().sum::<usize>() != k {
                        rep.fail(ctx, Fail::new("C12/decompose/parts", format!("k = {} decomposed into {:?}", k, parts)), case);
                    } else if parts.len() >= 2 {
                        let mut h = Fnv::new();
                        for p in &parts {
                            h.u64(*p as u64);
                        }
                        rep.nontrivial.insert(h.0);
                    }
                }
            }
        }
    });
    rep.sample(json!({"kind": "decompose", "k": 9}));
    rep
}

pub fn run(ctx: &Ctx) -> PropReport {
    let mut rep = PropReport::new(
        "random_code_with_size(n) for n = 1..64, 100, 235, 1034; random_code(m) for m = 0..40; CODE.RAND with boundary operands and max_points_in_random_expressions in {-25,0,1,2,3,25}; decompose(k) for k = 1..64; instruction lists {empty, one name, full registry} x binding tables {0,1,5 names} x new-name probabilities {0, 0.001, 0.5, 1, NaN}; many draws each; non-trivial = n >= 3 (bound >= 4, decomposition into >= 2 parts); distinct = printed item / part list",
        "INV on every single draw (the generator cannot be seeded): exact point count (Item::size and our own count), bound 1..m-1 and None below 2, CODE.RAND at most one item with points <= |operand| and <= |max points| and operand consumed, leaf kinds (instruction from the supplied list or NOOP, boolean, integer, float in [0,1), bound name unless a new one may be drawn), decomposition parts >= 1 summing to k; every first draw is also stepped (C01) and printed/parsed (C11); coverage assertion per setting with false-alarm probability < 1e-30.",
    );
    rep.assumptions.push("a name leaf may be new when nothing is bound or when the new-name probability times 10 000 is at least 1".into());
    let d = ctx.tier.pick(2000u64, 40_000u64);
    rep.push(size_checks(ctx, d));
    rep.push(bound_checks(ctx, d));
    rep.push(code_rand_checks(ctx, d));
    rep.push(decompose_checks(ctx, d));
    rep
}

pub fn replay(ctx: &Ctx, _sub: &str, case: &Value) -> Result<(), Fail> {
    let bad = || Fail::new("replay-format", "cannot decode C12 case");
    let kind = case.get("kind").and_then(|x| x.as_str()).ok_or_else(bad)?;
    // unseedable generator: re-draw under the same parameters
    let n = 3000;
    match kind {
        "with_size" => {
            let set = Setting::from_json(case.get("setting").ok_or_else(bad)?).ok_or_else(bad)?;
            let size = case.get("size").and_then(|x| x.as_u64()).ok_or_else(bad)? as usize;
            if let Some(item) = case.get("item").and_then(ItemSpec::from_json) {
                feed_forward(&item)?;
            }
            let mut ls = LeafStats::default();
            for _ in 0..n {
                let t = draw_with_size(&set, size, &mut ls)?;
                feed_forward(&t)?;
            }
            Ok(())
        }
        "bound" => {
            let set = Setting::from_json(case.get("setting").ok_or_else(bad)?).ok_or_else(bad)?;
            let m = case.get("bound").and_then(|x| x.as_u64()).ok_or_else(bad)? as usize;
            let cache = set.cache();
            let (state, _) = set.state().build();
            for _ in 0..n {
                match guarded(|| CodeGenerator::random_code(&state, &cache, m)) {
                    Err((l, msg)) => return Err(Fail::new(format!("C12/random_code/panic@{}", l), msg)),
                    Ok(None) if m >= 2 => return Err(Fail::new("C12/random_code/none-for-bound>=2", format!("bound {}", m))),
                    Ok(Some(i)) if m <= 1 || Item::size(&i) > m - 1 => return Err(Fail::new("C12/random_code/points-outside-1..bound-1", format!("bound {} gave {}", m, Item::size(&i)))),
                    _ => {}
                }
            }
            Ok(())
        }
        _ => {
            // CODE.RAND / decompose / coverage: rerun the corresponding sub-check at quick size
            let r = match kind {
                "CODE.RAND" => code_rand_checks(ctx, 400),
                "decompose" => decompose_checks(ctx, 400),
                _ => size_checks(ctx, 200),
            };
            match r.violations.first() {
                Some(v) => Err(Fail::new(v.signature.clone(), v.detail.clone())),
                None => Ok(()),
            }
        }
    }
}
