//! C18 — graph memory keeps its structure consistent and answers queries correctly.

use crate::engine::*;
use crate::exec::with_machine;
use crate::spec::*;
use proptest::prelude::*;
use pushr::push::graph::Graph;
use pushr::push::state::PushState;
use serde_json::{json, Value};
use std::collections::{BTreeMap, BTreeSet};

// ---------------------------------------------------------------------------------------------
// model

#[derive(Clone, Debug, PartialEq, Default)]
pub struct GModel {
    pub nodes: BTreeMap<usize, i32>,
    pub edges: BTreeMap<(usize, usize), f32>,
}
impl GModel {
    fn from_spec(g: &GraphSpec) -> GModel {
        GModel { nodes: g.nodes.iter().cloned().collect(), edges: g.edges.iter().map(|(o, d, w)| ((*o, *d), *w)).collect() }
    }
    fn remove_node(&mut self, id: usize) {
        self.nodes.remove(&id);
        self.edges.retain(|(o, d), _| *o != id && *d != id);
    }
    /// returns true if the pair was already present (weight old or new: unspecified)
    fn add_edge(&mut self, o: usize, d: usize, w: f32) -> bool {
        if self.nodes.contains_key(&o) && self.nodes.contains_key(&d) {
            if self.edges.contains_key(&(o, d)) {
                return true;
            }
            self.edges.insert((o, d), w);
        }
        false
    }
    fn preds(&self, id: usize, states: &[i32]) -> BTreeSet<i32> {
        self.edges.keys().filter(|(_, d)| *d == id).map(|(o, _)| *o).filter(|o| states.is_empty() || self.nodes.get(o).map(|s| states.contains(s)).unwrap_or(false)).map(|o| o as i32).collect()
    }
    fn succs(&self, id: usize, states: &[i32]) -> BTreeSet<i32> {
        self.edges.keys().filter(|(o, _)| *o == id).map(|(_, d)| *d).filter(|o| states.is_empty() || self.nodes.get(o).map(|s| states.contains(s)).unwrap_or(false)).map(|o| o as i32).collect()
    }
    fn filter(&self, states: &[i32]) -> BTreeSet<i32> {
        self.nodes.iter().filter(|(_, s)| states.is_empty() || states.contains(s)).map(|(k, _)| *k as i32).collect()
    }
}

/// structural invariants of the real graph + equality with the model
fn check_graph(g: &Graph, m: &GModel, ctx: &str) -> Result<(), Fail> {
    let spec = GraphSpec::from_graph(g);
    let mut pairs = BTreeSet::new();
    for (o, d, _) in &spec.edges {
        if !g.nodes.contains_key(o) || !g.nodes.contains_key(d) {
            return Err(Fail::new("C18/dangling-edge", format!("{}: edge {} -> {} has a missing endpoint; nodes {:?}", ctx, o, d, spec.nodes)));
        }
        if !pairs.insert((*o, *d)) {
            return Err(Fail::new("C18/duplicate-edge", format!("{}: edge {} -> {} stored twice", ctx, o, d)));
        }
    }
    if g.node_size() != m.nodes.len() {
        return Err(Fail::new("C18/node_size", format!("{}: node_size {} model {}", ctx, g.node_size(), m.nodes.len())));
    }
    if g.edge_size() != m.edges.len() {
        return Err(Fail::new("C18/edge_size", format!("{}: edge_size {} model {} (edges {:?} vs {:?})", ctx, g.edge_size(), m.edges.len(), spec.edges, m.edges)));
    }
    for (id, st) in &m.nodes {
        if g.get_state(id) != Some(*st) {
            return Err(Fail::new("C18/get_state", format!("{}: get_state({}) = {:?} model {}", ctx, id, g.get_state(id), st)));
        }
    }
    for ((o, d), w) in &m.edges {
        match g.get_weight(o, d) {
            Some(x) if feq(x, *w) => {}
            other => return Err(Fail::new("C18/get_weight", format!("{}: get_weight({}, {}) = {:?} model {}", ctx, o, d, other, w))),
        }
    }
    if GModel::from_spec(&spec).nodes != m.nodes {
        return Err(Fail::new("C18/nodes", format!("{}: nodes {:?} model {:?}", ctx, spec.nodes, m.nodes)));
    }
    let real_pairs: BTreeSet<(usize, usize)> = spec.edges.iter().map(|(o, d, _)| (*o, *d)).collect();
    let model_pairs: BTreeSet<(usize, usize)> = m.edges.keys().cloned().collect();
    if real_pairs != model_pairs {
        return Err(Fail::new("C18/edges", format!("{}: edges {:?} model {:?}", ctx, real_pairs, model_pairs)));
    }
    Ok(())
}

// ---------------------------------------------------------------------------------------------
// (A) API histories

#[derive(Clone, Debug)]
pub enum IdRef {
    Live(u8),
    Removed(u8),
    Never,
}
#[derive(Clone, Debug)]
pub enum Op {
    AddNode(i32),
    RemoveNode(IdRef),
    AddEdge(IdRef, IdRef, f32),
    RemoveEdge(IdRef, IdRef),
    SetState(IdRef, i32),
    SetWeight(IdRef, IdRef, f32),
    /// remove an edge and add it again with the weight it had (the graph is the same afterwards)
    ReAddEdge(IdRef, IdRef),
    GetState(IdRef),
    GetWeight(IdRef, IdRef),
    Filter(Vec<i32>),
    Snapshot,
    DiffWithSnapshot(u8),
}
use Op::*;

struct ApiRun {
    g: Graph,
    m: GModel,
    live: Vec<usize>,
    removed: Vec<usize>,
    snaps: Vec<(Graph, GModel)>,
}
impl ApiRun {
    fn resolve(&self, r: &IdRef) -> usize {
        match r {
            IdRef::Live(k) => {
                if self.live.is_empty() {
                    999_999_999_999
                } else {
                    self.live[*k as usize % self.live.len()]
                }
            }
            IdRef::Removed(k) => {
                if self.removed.is_empty() {
                    888_888_888_888
                } else {
                    self.removed[*k as usize % self.removed.len()]
                }
            }
            IdRef::Never => 777_777_777_777,
        }
    }
}

fn run_api(ops: &[Op]) -> CaseResult {
    let mut r = ApiRun { g: Graph::new(), m: GModel::default(), live: vec![], removed: vec![], snaps: vec![] };
    let mut removal = false;
    let mut dup_then_mut = false;
    let mut h = Fnv::new();
    let res = guarded(|| -> Result<(), Fail> {
        for (step, op) in ops.iter().enumerate() {
            h.str(&format!("{:?}", op));
            let ctxs = format!("after op {} {:?}", step, op);
            match op {
                AddNode(s) => {
                    let id = r.g.add_node(*s);
                    if r.m.nodes.contains_key(&id) || r.removed.contains(&id) || r.snaps.iter().any(|(_, m)| m.nodes.contains_key(&id)) {
                        return Err(Fail::new("C18/node-id-reused", format!("add_node returned id {} that was handed out before", id)));
                    }
                    r.m.nodes.insert(id, *s);
                    r.live.push(id);
                    if !r.snaps.is_empty() {
                        dup_then_mut = true;
                    }
                }
                RemoveNode(x) => {
                    let id = r.resolve(x);
                    r.g.remove_node(id);
                    if r.m.nodes.contains_key(&id) {
                        removal = true;
                        r.removed.push(id);
                    }
                    r.m.remove_node(id);
                    r.live.retain(|y| *y != id);
                    if !r.snaps.is_empty() {
                        dup_then_mut = true;
                    }
                }
                AddEdge(a, b, w) => {
                    let (o, d) = (r.resolve(a), r.resolve(b));
                    r.g.add_edge(o, d, *w);
                    if r.m.add_edge(o, d, *w) {
                        // pair already present: keep whichever weight the implementation kept
                        if let Some(x) = r.g.get_weight(&o, &d) {
                            let old = r.m.edges[&(o, d)];
                            if feq(x, old) || feq(x, *w) {
                                r.m.edges.insert((o, d), x);
                            }
                        }
                    }
                    if !r.snaps.is_empty() {
                        dup_then_mut = true;
                    }
                }
                RemoveEdge(a, b) => {
                    let (o, d) = (r.resolve(a), r.resolve(b));
                    r.g.remove_edge(o, d);
                    if r.m.edges.remove(&(o, d)).is_some() {
                        removal = true;
                    }
                }
                SetState(a, s) => {
                    let id = r.resolve(a);
                    r.g.set_state(&id, *s);
                    if let Some(x) = r.m.nodes.get_mut(&id) {
                        *x = *s;
                    }
                }
                ReAddEdge(a, b) => {
                    // pick an existing edge when there is one (resolved against the model)
                    let keys: Vec<(usize, usize)> = r.m.edges.keys().cloned().collect();
                    let (o, d) = if keys.is_empty() {
                        (r.resolve(a), r.resolve(b))
                    } else {
                        let k = match (a, b) {
                            (IdRef::Live(x), IdRef::Live(y)) => (*x as usize * 7 + *y as usize) % keys.len(),
                            _ => 0,
                        };
                        keys[k]
                    };
                    if let Some(w) = r.m.edges.get(&(o, d)).cloned() {
                        r.g.remove_edge(o, d);
                        r.g.add_edge(o, d, w);
                    }
                }
                SetWeight(a, b, w) => {
                    let (o, d) = (r.resolve(a), r.resolve(b));
                    r.g.set_weight(&o, &d, *w);
                    if let Some(x) = r.m.edges.get_mut(&(o, d)) {
                        *x = *w;
                    }
                }
                GetState(a) => {
                    let id = r.resolve(a);
                    if r.g.get_state(&id) != r.m.nodes.get(&id).cloned() {
                        return Err(Fail::new("C18/get_state", format!("get_state({}) = {:?} model {:?}", id, r.g.get_state(&id), r.m.nodes.get(&id))));
                    }
                }
                GetWeight(a, b) => {
                    let (o, d) = (r.resolve(a), r.resolve(b));
                    let (x, y) = (r.g.get_weight(&o, &d), r.m.edges.get(&(o, d)).cloned());
                    if x.is_some() != y.is_some() || (x.is_some() && !feq(x.unwrap(), y.unwrap())) {
                        return Err(Fail::new("C18/get_weight", format!("get_weight({}, {}) = {:?} model {:?}", o, d, x, y)));
                    }
                }
                Filter(states) => {
                    let got: BTreeSet<i32> = r.g.filter(states).into_iter().collect();
                    let n = r.g.filter(states).len();
                    let want = r.m.filter(states);
                    // a state listed twice may legitimately be matched twice: compare as sets
                    if got != want || (states.iter().collect::<BTreeSet<_>>().len() == states.len() && n != want.len()) {
                        return Err(Fail::new("C18/filter", format!("filter({:?}) = {:?} model {:?}", states, r.g.filter(states), want)));
                    }
                }
                Snapshot => {
                    r.snaps.push((r.g.clone(), r.m.clone()));
                }
                DiffWithSnapshot(k) => {
                    if !r.snaps.is_empty() {
                        let (sg, sm) = &r.snaps[*k as usize % r.snaps.len()];
                        let d = sg.diff(&r.g);
                        // whether a NaN weight equals itself is unspecified
                        let nan = sm.edges.values().chain(r.m.edges.values()).any(|w| w.is_nan());
                        if !nan && d.is_none() != (*sm == r.m) {
                            return Err(Fail::new("C18/diff", format!("diff is {:?} but the models are {}equal: {:?} vs {:?}", d, if *sm == r.m { "" } else { "not " }, sm, r.m)));
                        }
                        let d2 = r.g.diff(sg);
                        if d2.is_none() != d.is_none() {
                            return Err(Fail::new("C18/diff-asymmetric", format!("diff(a,b) = {:?}, diff(b,a) = {:?}", d, d2)));
                        }
                    }
                }
            }
            check_graph(&r.g, &r.m, &ctxs)?;
            // every snapshot still equals the model copy taken at that time
            for (i, (sg, sm)) in r.snaps.iter().enumerate() {
                check_graph(sg, sm, &format!("snapshot {} {}", i, ctxs)).map_err(|f| Fail::new(format!("C18/snapshot-altered/{}", f.signature), f.detail))?;
            }
        }
        Ok(())
    });
    match res {
        Ok(Ok(())) => {}
        Ok(Err(f)) => return Err(f),
        Err((l, m)) => return Err(Fail::new(format!("C18/api/panic@{}", l), m)),
    }
    Ok(CaseOut::new((removal || dup_then_mut) && r.m.nodes.len() >= 2 && !r.m.edges.is_empty(), h.0).class(if removal { "removal" } else { "no-removal" }))
}

fn idref() -> BoxedStrategy<IdRef> {
    prop_oneof![8 => (0u8..6).prop_map(IdRef::Live), 2 => (0u8..4).prop_map(IdRef::Removed), 1 => Just(IdRef::Never)].boxed()
}
fn op_strategy() -> BoxedStrategy<Op> {
    // weights: halves, arbitrary, and special values - pairs one ulp apart (different weights),
    // infinities (equal to themselves), NaN, signed zeros
    let w = prop_oneof![
        6 => (-8i32..8).prop_map(|x| x as f32 / 2.0),
        2 => -100.0f32..100.0,
        3 => prop::sample::select(vec![1.0f32, 1.000_000_1, 0.1, 0.100_000_01, 1e-8, 2e-8, 0.0, -0.0, f32::INFINITY, f32::NEG_INFINITY, f32::NAN, f32::MAX, f32::MIN_POSITIVE]),
    ];
    prop_oneof![
        6 => (-2i32..4).prop_map(AddNode),
        3 => idref().prop_map(RemoveNode),
        8 => (idref(), idref(), w.clone()).prop_map(|(a, b, w)| AddEdge(a, b, w)),
        3 => (idref(), idref()).prop_map(|(a, b)| RemoveEdge(a, b)),
        3 => (idref(), -2i32..4).prop_map(|(a, s)| SetState(a, s)),
        3 => (idref(), idref(), w).prop_map(|(a, b, w)| SetWeight(a, b, w)),
        3 => (idref(), idref()).prop_map(|(a, b)| ReAddEdge(a, b)),
        1 => idref().prop_map(GetState),
        1 => (idref(), idref()).prop_map(|(a, b)| GetWeight(a, b)),
        2 => prop::collection::vec(-2i32..4, 0..3).prop_map(Filter),
        2 => Just(Snapshot),
        2 => (0u8..4).prop_map(DiffWithSnapshot),
    ]
    .boxed()
}

fn api_exhaustive(ctx: &Ctx, len: usize) -> SubReport {
    // alphabet on at most 3 live nodes
    let mut alpha: Vec<Op> = vec![AddNode(0), AddNode(1)];
    for i in 0..3u8 {
        alpha.push(RemoveNode(IdRef::Live(i)));
        alpha.push(SetState(IdRef::Live(i), 1));
        for j in 0..3u8 {
            alpha.push(AddEdge(IdRef::Live(i), IdRef::Live(j), 1.5));
            alpha.push(RemoveEdge(IdRef::Live(i), IdRef::Live(j)));
            alpha.push(SetWeight(IdRef::Live(i), IdRef::Live(j), 2.5));
        }
    }
    alpha.push(Snapshot);
    alpha.push(AddEdge(IdRef::Live(0), IdRef::Removed(0), 3.0));
    let k = alpha.len() as u64;
    let total = k.pow(len as u32);
    let mut rep = par_map(ctx, "api-exhaustive", total, |mut code, rep| {
        let mut ops = vec![];
        for _ in 0..len {
            ops.push(alpha[(code % k) as usize].clone());
            code /= k;
        }
        // more than 3 live nodes are outside this enumeration's scope but harmless
        ops.push(DiffWithSnapshot(0));
        rep.evaluations += 1;
        match run_api(&ops) {
            Ok(o) => {
                if o.nontrivial {
                    rep.nontrivial_extra += 1;
                }
            }
            Err(f) => rep.fail(ctx, f, json!({"ops": format!("{:?}", ops)})),
        }
    });
    rep.exhaustive = true;
    rep.notes.push(format!("every sequence of length {} over {} operations on <= 3 live nodes (add/remove node, add/remove edge, set state/weight, snapshot), each followed by a diff against the first snapshot; invariants and model equality after every operation", len, k));
    rep.sample(json!({"ops": "[AddNode(0), AddNode(1), AddEdge(Live(0), Live(1), 1.5), Snapshot, RemoveNode(Live(0)), DiffWithSnapshot(0)]"}));
    rep
}

// ---------------------------------------------------------------------------------------------
// (I) instruction histories

#[derive(Clone, Debug)]
pub enum Tok {
    Int(IntRef),
    Float(f32),
    States(Vec<i32>),
    Ids(Vec<IntRef>),
    Switch(Vec<bool>),
    Instr(&'static str),
}
#[derive(Clone, Debug)]
pub enum IntRef {
    LiveTop(u8),
    Stale(u8),
    Lit(i32),
}

const GRAPH_INSTRS: [&str; 20] = [
    "GRAPH.ADD", "GRAPH.DUP", "GRAPH.NODE*ADD", "GRAPH.NODE*GETSTATE", "GRAPH.NODE*HISTORY", "GRAPH.NODE*SETSTATE", "GRAPH.NODE*NEIGHBORS", "GRAPH.NODE*PREDECESSORS", "GRAPH.NODE*SUCCESSORS",
    "GRAPH.NODE*STATESWITCH", "GRAPH.NODES", "GRAPH.NODES*HISTORY", "GRAPH.STACKDEPTH", "GRAPH.PRINT", "GRAPH.PRINT*DIFF", "GRAPH.EDGE*ADD", "GRAPH.EDGE*HISTORY", "GRAPH.EDGE*GETWEIGHT",
    "GRAPH.EDGE*SETWEIGHT", "INTEGER.POP",
];

fn intref() -> BoxedStrategy<IntRef> {
    prop_oneof![
        10 => (0u8..6).prop_map(IntRef::LiveTop),
        2 => (0u8..4).prop_map(IntRef::Stale),
        3 => prop::sample::select(vec![0, -1, 1, 2, 3, i32::MAX, i32::MIN, 1_000_000_000, -7]).prop_map(IntRef::Lit),
    ]
    .boxed()
}

/// statement-shaped groups so that operands are usually present
fn group() -> BoxedStrategy<Vec<Tok>> {
    let w = prop_oneof![
        8 => (-8i32..8).prop_map(|x| x as f32 / 2.0),
        2 => prop::sample::select(vec![1.0f32, 1.000_000_1, 0.1, 0.100_000_01, 0.0, -0.0, f32::INFINITY, f32::NEG_INFINITY, f32::NAN, f32::MAX]),
    ];
    let pos = prop::sample::select(vec![-1, 0, 1, 2, 3, 50]).prop_map(IntRef::Lit);
    let st = prop::collection::vec(-1i32..3, 0..3);
    prop_oneof![
        2 => Just(vec![Tok::Instr("GRAPH.ADD")]),
        3 => Just(vec![Tok::Instr("GRAPH.DUP")]),
        8 => (-1i32..3).prop_map(|s| vec![Tok::Int(IntRef::Lit(s)), Tok::Instr("GRAPH.NODE*ADD"), Tok::Instr("INTEGER.POP")]),
        8 => (intref(), intref(), w.clone()).prop_map(|(o, d, w)| vec![Tok::Float(w), Tok::Int(o), Tok::Int(d), Tok::Instr("GRAPH.EDGE*ADD")]),
        2 => (intref(), intref(), w).prop_map(|(o, d, w)| vec![Tok::Float(w), Tok::Int(o), Tok::Int(d), Tok::Instr("GRAPH.EDGE*SETWEIGHT")]),
        2 => (intref(), intref()).prop_map(|(o, d)| vec![Tok::Int(o), Tok::Int(d), Tok::Instr("GRAPH.EDGE*GETWEIGHT")]),
        2 => (intref(), intref(), pos.clone()).prop_map(|(o, d, p)| vec![Tok::Int(o), Tok::Int(d), Tok::Int(p), Tok::Instr("GRAPH.EDGE*HISTORY")]),
        2 => intref().prop_map(|i| vec![Tok::Int(i), Tok::Instr("GRAPH.NODE*GETSTATE")]),
        2 => (intref(), -1i32..3).prop_map(|(i, s)| vec![Tok::Int(i), Tok::Int(IntRef::Lit(s)), Tok::Instr("GRAPH.NODE*SETSTATE")]),
        2 => (intref(), pos.clone()).prop_map(|(i, p)| vec![Tok::Int(i), Tok::Int(p), Tok::Instr("GRAPH.NODE*HISTORY")]),
        3 => (intref(), st.clone(), prop::sample::select(vec!["GRAPH.NODE*NEIGHBORS", "GRAPH.NODE*PREDECESSORS", "GRAPH.NODE*SUCCESSORS"])).prop_map(|(i, s, n)| vec![Tok::States(s), Tok::Int(i), Tok::Instr(n)]),
        2 => st.clone().prop_map(|s| vec![Tok::States(s), Tok::Instr("GRAPH.NODES")]),
        2 => (st, pos).prop_map(|(s, p)| vec![Tok::States(s), Tok::Int(p), Tok::Instr("GRAPH.NODES*HISTORY")]),
        2 => (prop::collection::vec(intref(), 0..4), prop::collection::vec(any::<bool>(), 0..4), -1i32..3, -1i32..3).prop_map(|(ids, sw, on, off)| vec![Tok::Ids(ids), Tok::Switch(sw), Tok::Int(IntRef::Lit(on)), Tok::Int(IntRef::Lit(off)), Tok::Instr("GRAPH.NODE*STATESWITCH")]),
        1 => Just(vec![Tok::Instr("GRAPH.STACKDEPTH")]),
        1 => Just(vec![Tok::Instr("GRAPH.PRINT")]),
        2 => Just(vec![Tok::Instr("GRAPH.PRINT*DIFF")]),
        1 => prop::sample::select(GRAPH_INSTRS.to_vec()).prop_map(|n| vec![Tok::Instr(n)]),
    ]
    .boxed()
}

/// a history starts with a graph and two nodes so that most operations find their operands
pub fn instr_history() -> BoxedStrategy<Vec<Vec<Tok>>> {
    prop::collection::vec(group(), 1..40)
        .prop_map(|mut v| {
            let mut pre = vec![vec![Tok::Instr("GRAPH.ADD")]];
            for s in [0, 1] {
                pre.push(vec![Tok::Int(IntRef::Lit(s)), Tok::Instr("GRAPH.NODE*ADD"), Tok::Instr("INTEGER.POP")]);
            }
            pre.append(&mut v);
            pre
        })
        .boxed()
}

#[allow(dead_code)]
fn models(s: &StateSpec) -> Vec<GModel> {
    s.graphs.iter().map(GModel::from_spec).collect()
}

/// Reference for one GRAPH instruction on a snapshot with real node ids.
/// Returns None when the value is unspecified / operands missing (not compared).
struct GExp {
    state: StateSpec,
    ivec_top_as_set: bool,
    new_node_state: Option<i32>,
    name_top_any: bool,
    edge_weight_either: Option<((usize, usize), f32, f32)>,
}
fn ref_graph(s0: &StateSpec, name: &str) -> Option<GExp> {
    let mut s = s0.clone();
    let mut e = GExp { state: s0.clone(), ivec_top_as_set: false, new_node_state: None, name_top_any: false, edge_weight_either: None };
    let uid = |v: i32| v as i64 as usize; // ids are cast from i32 to usize
    match name {
        "GRAPH.ADD" => {
            if s.graphs.len() < 100 {
                s.graphs.insert(0, GraphSpec::default());
            }
        }
        "GRAPH.DUP" => {
            if !s.graphs.is_empty() && s.graphs.len() < 100 {
                let g = s.graphs[0].clone();
                s.graphs.insert(0, g);
            }
        }
        "GRAPH.STACKDEPTH" => s.ints.insert(0, s.graphs.len() as i32),
        "INTEGER.POP" => {
            if !s.ints.is_empty() {
                s.ints.remove(0);
            }
        }
        "GRAPH.NODE*ADD" => {
            if s.graphs.is_empty() || s.ints.is_empty() {
                return None;
            }
            let st = s.ints.remove(0);
            e.new_node_state = Some(st);
        }
        "GRAPH.NODE*GETSTATE" => {
            if s.graphs.is_empty() || s.ints.is_empty() {
                return None;
            }
            let id = s.ints.remove(0);
            if id > 0 {
                if let Some(st) = GModel::from_spec(&s.graphs[0]).nodes.get(&uid(id)) {
                    s.ints.insert(0, *st);
                }
            }
        }
        "GRAPH.NODE*SETSTATE" => {
            if s.graphs.is_empty() || s.ints.len() < 2 {
                return None;
            }
            let st = s.ints.remove(0);
            let id = s.ints.remove(0);
            if id > 0 {
                for n in s.graphs[0].nodes.iter_mut() {
                    if n.0 == uid(id) {
                        n.1 = st;
                    }
                }
            }
        }
        "GRAPH.NODE*HISTORY" => {
            if s.ints.len() < 2 {
                return None;
            }
            let pos = s.ints.remove(0);
            if pos < 0 {
                return None; // what is consumed for a negative position is unspecified
            }
            let id = s.ints.remove(0);
            if let Some(g) = s.graphs.get(pos as usize) {
                if id >= 0 {
                    if let Some(st) = GModel::from_spec(g).nodes.get(&uid(id)) {
                        s.ints.insert(0, *st);
                    }
                }
            }
        }
        "GRAPH.NODE*NEIGHBORS" | "GRAPH.NODE*PREDECESSORS" | "GRAPH.NODE*SUCCESSORS" => {
            if s.graphs.is_empty() || s.ivecs.is_empty() || s.ints.is_empty() {
                return None;
            }
            let states = s.ivecs.remove(0);
            let id = s.ints.remove(0);
            if id > 0 {
                let m = GModel::from_spec(&s.graphs[0]);
                let mut r: BTreeSet<i32> = BTreeSet::new();
                if name != "GRAPH.NODE*SUCCESSORS" {
                    r.extend(m.preds(uid(id), &states));
                }
                if name != "GRAPH.NODE*PREDECESSORS" {
                    r.extend(m.succs(uid(id), &states));
                }
                s.ivecs.insert(0, r.into_iter().collect());
                e.ivec_top_as_set = true;
            }
        }
        "GRAPH.NODE*STATESWITCH" => {
            if s.graphs.is_empty() || s.ivecs.is_empty() || s.bvecs.is_empty() || s.ints.len() < 2 {
                return None;
            }
            let ids = s.ivecs.remove(0);
            let sw = s.bvecs.remove(0);
            let off = s.ints.remove(0);
            let on = s.ints.remove(0);
            for i in 0..ids.len().min(sw.len()) {
                for n in s.graphs[0].nodes.iter_mut() {
                    if n.0 == uid(ids[i]) {
                        n.1 = if sw[i] { on } else { off };
                    }
                }
            }
        }
        "GRAPH.NODES" => {
            if s.graphs.is_empty() || s.ivecs.is_empty() {
                return None;
            }
            let states = s.ivecs.remove(0);
            s.ivecs.insert(0, GModel::from_spec(&s.graphs[0]).filter(&states).into_iter().collect());
            e.ivec_top_as_set = true;
        }
        "GRAPH.NODES*HISTORY" => {
            if s.ints.is_empty() || s.ivecs.is_empty() {
                return None;
            }
            let pos = s.ints.remove(0);
            if pos >= 0 {
                if let Some(g) = s.graphs.get(pos as usize).cloned() {
                    let states = s.ivecs.remove(0);
                    s.ivecs.insert(0, GModel::from_spec(&g).filter(&states).into_iter().collect());
                    e.ivec_top_as_set = true;
                }
            }
        }
        "GRAPH.PRINT" => {
            if !s.graphs.is_empty() {
                s.names.insert(0, String::new());
                e.name_top_any = true;
            }
        }
        "GRAPH.PRINT*DIFF" => {
            if s.graphs.len() >= 2 {
                // whether a NaN weight equals itself is unspecified
                if s.graphs[0].edges.iter().chain(s.graphs[1].edges.iter()).any(|e| e.2.is_nan()) {
                    return None;
                }
                // the diff text is pushed exactly when the two snapshots differ
                if GModel::from_spec(&s.graphs[0]) != GModel::from_spec(&s.graphs[1]) {
                    s.names.insert(0, String::new());
                    e.name_top_any = true;
                }
            }
        }
        "GRAPH.EDGE*ADD" | "GRAPH.EDGE*SETWEIGHT" => {
            if s.graphs.is_empty() || s.floats.is_empty() || s.ints.len() < 2 {
                return None;
            }
            let w = s.floats.remove(0);
            let d = uid(s.ints.remove(0));
            let o = uid(s.ints.remove(0));
            let mut m = GModel::from_spec(&s.graphs[0]);
            if name == "GRAPH.EDGE*ADD" {
                if m.add_edge(o, d, w) {
                    e.edge_weight_either = Some(((o, d), m.edges[&(o, d)], w));
                }
            } else if let Some(x) = m.edges.get_mut(&(o, d)) {
                *x = w;
            }
            s.graphs[0].edges = m.edges.iter().map(|((o, d), w)| (*o, *d, *w)).collect();
        }
        "GRAPH.EDGE*GETWEIGHT" => {
            if s.graphs.is_empty() || s.ints.len() < 2 {
                return None;
            }
            let d = uid(s.ints.remove(0));
            let o = uid(s.ints.remove(0));
            if let Some(w) = GModel::from_spec(&s.graphs[0]).edges.get(&(o, d)) {
                s.floats.insert(0, *w);
            }
        }
        "GRAPH.EDGE*HISTORY" => {
            if s.ints.len() < 3 {
                return None;
            }
            let pos = s.ints.remove(0);
            if pos <= 0 {
                return None; // position 0: unspecified (siblings accept 0, this one requires > 0)
            }
            if let Some(g) = s.graphs.get(pos as usize).cloned() {
                let d = uid(s.ints.remove(0));
                let o = uid(s.ints.remove(0));
                if let Some(w) = GModel::from_spec(&g).edges.get(&(o, d)) {
                    s.floats.insert(0, *w);
                }
            }
        }
        _ => return None,
    }
    e.state = s;
    Some(e)
}

fn push_tok(st: &mut PushState, t: &Tok, cur: &StateSpec, stale: &[usize]) {
    let resolve = |r: &IntRef| -> i32 {
        match r {
            IntRef::LiveTop(k) => {
                let ids: Vec<usize> = cur.graphs.first().map(|g| g.nodes.iter().map(|n| n.0).collect()).unwrap_or_default();
                if ids.is_empty() {
                    5
                } else {
                    ids[*k as usize % ids.len()] as i32
                }
            }
            IntRef::Stale(k) => {
                if stale.is_empty() {
                    123_456
                } else {
                    stale[*k as usize % stale.len()] as i32
                }
            }
            IntRef::Lit(v) => *v,
        }
    };
    match t {
        Tok::Int(r) => st.int_stack.push(resolve(r)),
        Tok::Float(f) => st.float_stack.push(*f),
        Tok::States(v) => st.int_vector_stack.push(pushr::push::vector::IntVector::new(v.clone())),
        Tok::Ids(v) => st.int_vector_stack.push(pushr::push::vector::IntVector::new(v.iter().map(resolve).collect())),
        Tok::Switch(v) => st.bool_vector_stack.push(pushr::push::vector::BoolVector::new(v.clone())),
        Tok::Instr(_) => {}
    }
}

fn run_instr(groups: &Vec<Vec<Tok>>) -> CaseResult {
    let mut st = PushState::new();
    let mut cur = StateSpec::snapshot(&st);
    let mut seen_ids: BTreeSet<usize> = BTreeSet::new();
    let mut stale: Vec<usize> = vec![];
    let mut compared = 0;
    let mut dup_then_mut = false;
    let mut dups = 0;
    let mut h = Fnv::new();
    for g in groups {
        for t in g {
            h.str(&format!("{:?}", t));
            match t {
                Tok::Instr(name) => {
                    let exp = ref_graph(&cur, name);
                    crate::supervise::journal_instr("C18", name, &cur);
                    let r = guarded(|| with_machine(|m| m.step_named(&mut st, name)));
                    if let Err((l, m)) = r {
                        return Err(Fail::new(format!("C18/{}/panic@{}", name, l), format!("{} | {}", m, cur.brief())));
                    }
                    let snap = StateSpec::snapshot(&st);
                    // structural invariants of every stacked graph
                    for i in 0..st.graph_stack.size() {
                        let gr = st.graph_stack.get(i).unwrap();
                        check_graph(gr, &GModel::from_spec(&GraphSpec::from_graph(gr)), &format!("graph {} after {}", i, name))?;
                    }
                    if let Some(mut e) = exp {
                        let mut a = snap.clone();
                        if let Some(state) = e.new_node_state {
                            // fresh id pushed on INTEGER, node with that id and state added to the top graph
                            let id = match a.ints.first() {
                                Some(v) => *v,
                                None => return Err(Fail::new("C18/GRAPH.NODE*ADD/no-id-pushed", cur.brief())),
                            };
                            let uidv = id as i64 as usize;
                            if id <= 0 || seen_ids.contains(&uidv) {
                                return Err(Fail::new("C18/GRAPH.NODE*ADD/id-not-fresh", format!("id {} (seen before: {})", id, seen_ids.contains(&uidv))));
                            }
                            e.state.ints.insert(0, id);
                            e.state.graphs[0].nodes.push((uidv, state));
                            e.state.graphs[0].nodes.sort();
                        }
                        if e.ivec_top_as_set {
                            if let (Some(x), Some(y)) = (a.ivecs.first_mut(), e.state.ivecs.first_mut()) {
                                x.sort();
                                x.dedup();
                                y.sort();
                            }
                        }
                        if e.name_top_any {
                            if let (Some(x), Some(y)) = (a.names.first_mut(), e.state.names.first_mut()) {
                                *y = x.clone();
                            }
                        }
                        if let Some(((o, d), w_old, w_new)) = e.edge_weight_either {
                            // existing pair: either weight may be kept
                            if let Some(g0) = a.graphs.first() {
                                if let Some(x) = g0.edges.iter().find(|x| x.0 == o && x.1 == d) {
                                    if feq(x.2, w_old) || feq(x.2, w_new) {
                                        for y in e.state.graphs[0].edges.iter_mut() {
                                            if y.0 == o && y.1 == d {
                                                y.2 = x.2;
                                            }
                                        }
                                    }
                                }
                            }
                        }
                        if let Some(d) = e.state.diff(&a) {
                            let comp = e.state.differing_components(&a).first().cloned().unwrap_or("?");
                            return Err(Fail::new(format!("C18/{}/{}", name, comp), format!("after {}: {} | before: {}", name, d, cur.brief())));
                        }
                        compared += 1;
                    }
                    if *name == "GRAPH.DUP" && snap.graphs.len() > cur.graphs.len() {
                        dups += 1;
                    } else if dups > 0 && snap.graphs.first() != cur.graphs.first() && snap.graphs.len() == cur.graphs.len() {
                        dup_then_mut = true;
                    }
                    // bookkeeping of ids
                    for g in &snap.graphs {
                        for n in &g.nodes {
                            seen_ids.insert(n.0);
                        }
                    }
                    let live_top: BTreeSet<usize> = snap.graphs.first().map(|g| g.nodes.iter().map(|n| n.0).collect()).unwrap_or_default();
                    stale = seen_ids.iter().filter(|i| !live_top.contains(i)).cloned().collect();
                    cur = snap;
                }
                other => {
                    push_tok(&mut st, other, &cur, &stale);
                    cur = StateSpec::snapshot(&st);
                }
            }
        }
    }
    let nodes = cur.graphs.iter().map(|g| g.nodes.len()).max().unwrap_or(0);
    let edges = cur.graphs.iter().map(|g| g.edges.len()).max().unwrap_or(0);
    Ok(CaseOut::new(dup_then_mut && nodes >= 2 && edges >= 1 && compared >= 5, h.0).class(format!("graphs{}", cur.graphs.len().min(5))).class(if dup_then_mut { "dup-then-mutation" } else { "no-dup-mutation" }))
}

/// Crash-only execution of an instruction history (used by C01: stacked graphs that share node
/// ids because they descend from one another). Ok((instructions executed, a PRINT*DIFF ran on two
/// different graphs after a DUP)), Err((instruction, panic location, message)).
pub fn run_history_crash_only(prop: &str, groups: &Vec<Vec<Tok>>) -> Result<(usize, bool), (String, String, String)> {
    let mut st = PushState::new();
    let mut cur = StateSpec::snapshot(&st);
    let mut seen_ids: BTreeSet<usize> = BTreeSet::new();
    let mut stale: Vec<usize> = vec![];
    let (mut steps, mut dups, mut diff_after_dup) = (0usize, 0usize, false);
    for g in groups {
        for t in g {
            match t {
                Tok::Instr(name) => {
                    crate::supervise::journal_instr(prop, name, &cur);
                    crate::envelope::clamp_sizes(&mut st);
                    let differ = cur.graphs.len() >= 2 && cur.graphs[0] != cur.graphs[1];
                    let r = guarded(|| with_machine(|m| m.step_named(&mut st, name)));
                    if let Err((l, m)) = r {
                        return Err((name.to_string(), l, format!("{} | state before: {}", m, cur.brief())));
                    }
                    steps += 1;
                    if *name == "GRAPH.DUP" {
                        dups += 1;
                    }
                    if *name == "GRAPH.PRINT*DIFF" && dups > 0 && differ {
                        diff_after_dup = true;
                    }
                    let snap = StateSpec::snapshot(&st);
                    for g in &snap.graphs {
                        for n in &g.nodes {
                            seen_ids.insert(n.0);
                        }
                    }
                    let live_top: BTreeSet<usize> = snap.graphs.first().map(|g| g.nodes.iter().map(|n| n.0).collect()).unwrap_or_default();
                    stale = seen_ids.iter().filter(|i| !live_top.contains(i)).cloned().collect();
                    cur = snap;
                }
                other => {
                    push_tok(&mut st, other, &cur, &stale);
                    cur = StateSpec::snapshot(&st);
                }
            }
        }
    }
    Ok((steps, diff_after_dup))
}

/// capacity: the GRAPH stack holds at most 100 graphs; pushes beyond are ignored
fn capacity(ctx: &Ctx) -> SubReport {
    let mut rep = SubReport::new("graph-stack-capacity");
    let mut groups: Vec<Vec<Tok>> = vec![vec![Tok::Instr("GRAPH.ADD")], vec![Tok::Int(IntRef::Lit(1)), Tok::Instr("GRAPH.NODE*ADD"), Tok::Instr("INTEGER.POP")]];
    for i in 0..105 {
        groups.push(vec![Tok::Instr("GRAPH.DUP")]);
        if i % 10 == 0 {
            groups.push(vec![Tok::Int(IntRef::Lit(i)), Tok::Instr("GRAPH.NODE*ADD"), Tok::Instr("INTEGER.POP")]);
        }
    }
    groups.push(vec![Tok::Instr("GRAPH.STACKDEPTH")]);
    groups.push(vec![Tok::States(vec![]), Tok::Int(IntRef::Lit(99)), Tok::Instr("GRAPH.NODES*HISTORY")]);
    rep.evaluations += 1;
    match run_instr(&groups) {
        Ok(_) => {
            rep.nontrivial.insert(1);
            rep.nontrivial.insert(2);
            rep.sample(json!({"program": "GRAPH.ADD, NODE*ADD, 105 x GRAPH.DUP with node additions in between, STACKDEPTH, NODES*HISTORY at 99"}));
        }
        Err(f) => rep.fail(ctx, f, json!({"groups": format!("{:?}", groups)})),
    }
    rep
}

pub fn run(ctx: &Ctx) -> PropReport {
    let mut rep = PropReport::new(
        "(A) Graph API histories over add/remove node, add/remove edge, set state/weight, getters, filter, clone, diff with ids drawn from {live, removed, never issued}; (I) GRAPH.* instruction histories in statement-shaped groups with operands from {live id of the top graph, stale id, 0, negative, huge}, DUPs followed by mutation, history positions -1..50, up to the 100-graph capacity; non-trivial = history with a removal or a DUP followed by a mutation, >= 2 nodes, >= 1 edge; distinct = history digest",
        "REF: set/map model (nodes id -> state, edges (origin, destination) -> weight; removing a node removes its edges; adding an existing pair changes nothing but may keep either weight). After every operation INV: every edge connects existing nodes, no pair twice, sizes / states / weights equal the model; queries compared as sets; every snapshot (clone / GRAPH.DUP) still equals the model copy taken then; diff / PRINT*DIFF empty exactly when the models are equal.",
    );
    rep.assumptions.push("unspecified: GRAPH.EDGE*HISTORY at position 0, what *HISTORY consumes for a negative position, id order inside result vectors, the text of GRAPH.PRINT".into());
    rep.push(api_exhaustive(ctx, ctx.tier.pick(4, 5)));
    rep.push(run_sharded(ctx, "api-random", ctx.tier.pick(100_000, 1_000_000), || prop::collection::vec(op_strategy(), 0..60), |ops: &Vec<Op>| run_api(ops), |ops| json!({"ops": format!("{:?}", ops)})));
    rep.push(run_sharded(ctx, "instructions", ctx.tier.pick(60_000, 600_000), instr_history, run_instr, |g| json!({"groups": format!("{:?}", g)})));
    rep.push(capacity(ctx));
    rep
}

pub fn replay(ctx: &Ctx, sub: &str, case: &Value) -> Result<(), Fail> {
    // histories are stored in debug form; replay re-runs the sub-check with the recorded seed
    let _ = case;
    let r = match sub {
        "api-exhaustive" => api_exhaustive(ctx, 3),
        "api-random" => run_sharded(ctx, "api-random", 20_000, || prop::collection::vec(op_strategy(), 0..60), |ops: &Vec<Op>| run_api(ops), |ops| json!({"ops": format!("{:?}", ops)})),
        "graph-stack-capacity" => capacity(ctx),
        _ => run_sharded(ctx, "instructions", 20_000, instr_history, run_instr, |g| json!({"groups": format!("{:?}", g)})),
    };
    match r.violations.first() {
        Some(v) => Err(Fail::new(v.signature.clone(), v.detail.clone())),
        None => Ok(()),
    }
}
