//! C13 — random value generators and RAND instructions respect their documented bounds.
//! Unseedable generator: per-draw invariants only, plus one coverage assertion with a stated
//! false-alarm bound.

use crate::engine::*;
use crate::exec::step_named_on;
use crate::spec::*;
use pushr::push::random::CodeGenerator;
use proptest::strategy::BoxedStrategy;
use serde_json::{json, Value};

fn journal(v: &Value) {
    crate::supervise::journal_value(v);
}

/// acceptable numbers of non-default bits for (size, sparsity)
fn allowed_counts(size: i32, s: f32) -> (bool, Vec<i64>) {
    let default = s > 0.5;
    // documented rounding: the sparsity of the non-default share is rounded to two decimals,
    // the count is the truncated product
    let hundred = 100.0 * (s.min(1.0 - s)) as f64;
    // at a rounding tie (x.5 within float error) both roundings are accepted
    let tie = (hundred - hundred.floor() - 0.5).abs() < 1e-3;
    let sps: Vec<f64> = if tie { vec![hundred.floor() / 100.0, hundred.ceil() / 100.0] } else { vec![hundred.round() / 100.0] };
    let mut ok = vec![];
    for sp in sps {
        let v = sp * size as f64;
        let fl = v.floor() as i64;
        let frac = v - v.floor();
        ok.push(fl);
        if frac < 0.2 {
            ok.push(fl - 1);
        }
        if frac > 0.8 {
            ok.push(fl + 1);
        }
    }
    ok.sort();
    ok.dedup();
    (default, ok.into_iter().filter(|x| *x >= 0 && *x <= size as i64).collect())
}

fn bool_vector(ctx: &Ctx, draws: u64) -> SubReport {
    let mut sizes: Vec<i32> = (0..=32).collect();
    sizes.extend([100, 1000, -1, -5, i32::MIN]);
    let mut sparsities: Vec<f32> = (0..=100).map(|k| k as f32 / 100.0).collect();
    sparsities.extend([-0.1, 1.1, f32::INFINITY, f32::NEG_INFINITY, f32::NAN, 0.005, 0.995, 0.333, 1.0 + 1e-6, -1e-6]);
    let mut work: Vec<(i32, f32)> = sizes.iter().flat_map(|n| sparsities.iter().map(move |s| (*n, *s))).collect();
    // long vectors (beyond 2^16 elements), a few sparsities, two draws each
    for n in [65_536, 65_537, 100_000] {
        for s in [0.0f32, 0.005, 0.25, 0.5, 0.75, 1.0, 1.5] {
            work.push((n, s));
        }
    }
    let per = (draws / 20).max(2);
    let mut rep = par_map(ctx, "random_bool_vector", work.len() as u64, |wi, rep| {
        let (size, s) = work[wi as usize];
        let per = if size > 1000 { 2 } else { per };
        let case = json!({"kind": "c13", "fn": "random_bool_vector", "size": size, "sparsity": fjson(s)});
        journal(&case);
        for _ in 0..per {
            rep.evaluations += 1;
            let valid = size >= 0 && s >= 0.0 && s <= 1.0;
            match guarded(|| CodeGenerator::random_bool_vector(size, s)) {
                Err((l, m)) => {
                    rep.fail(ctx, Fail::new(format!("C13/random_bool_vector/panic@{}", l), format!("size {} sparsity {}: {}", size, s, m)), case.clone());
                    break;
                }
                Ok(None) => {
                    if valid {
                        rep.fail(ctx, Fail::new("C13/random_bool_vector/none-for-valid-parameters", format!("size {} sparsity {}", size, s)), case.clone());
                        break;
                    }
                }
                Ok(Some(v)) => {
                    if !valid {
                        rep.fail(ctx, Fail::new("C13/random_bool_vector/vector-for-invalid-parameters", format!("size {} sparsity {} gave a vector of length {}", size, s, v.values.len())), case.clone());
                        break;
                    }
                    if v.values.len() != size as usize {
                        rep.fail(ctx, Fail::new("C13/random_bool_vector/length", format!("size {} gave length {}", size, v.values.len())), case.clone());
                        break;
                    }
                    let (default, ok) = allowed_counts(size, s);
                    let nondefault = v.values.iter().filter(|b| **b != default).count() as i64;
                    if !ok.contains(&nondefault) {
                        let trues = v.values.iter().filter(|b| **b).count();
                        rep.fail(
                            ctx,
                            Fail::new("C13/random_bool_vector/true-count", format!("size {} sparsity {}: {} TRUE bits ({} non-default), expected non-default count in {:?}", size, s, trues, nondefault, ok)),
                            case.clone(),
                        );
                        break;
                    }
                    if size >= 4 && s > 0.0 && s < 1.0 {
                        let mut h = Fnv::new();
                        h.u64(wi);
                        for b in &v.values {
                            h.u8(*b as u8);
                        }
                        rep.nontrivial.insert(h.0);
                    }
                }
            }
        }
    });
    rep.notes.push(format!("sizes 0..32, 100, 1000 and negative x sparsities k/100 plus out-of-range / non-finite / NaN, {} draws each", per));
    rep.sample(json!({"fn": "random_bool_vector", "size": 10, "sparsity": "0.3"}));
    rep
}

/// every position can become TRUE: for size <= 16, D draws with size * (1 - 1/size)^D < 1e-13
fn position_coverage(ctx: &Ctx) -> SubReport {
    let cases: Vec<(i32, f32)> = (2..=16).flat_map(|n| [(n, 0.5f32), (n, 0.3)]).collect();
    let mut rep = par_map(ctx, "position-coverage", cases.len() as u64, |wi, rep| {
        let (size, s) = cases[wi as usize];
        let (_, ok) = allowed_counts(size, s);
        if ok.iter().any(|c| *c < 1) {
            // the documented count may be zero for this (size, sparsity): nothing to cover
            return;
        }
        let d = 700;
        let mut seen = vec![false; size as usize];
        let case = json!({"kind": "c13", "fn": "random_bool_vector", "size": size, "sparsity": fjson(s), "coverage": true});
        journal(&case);
        for _ in 0..d {
            rep.evaluations += 1;
            if let Ok(Some(v)) = guarded(|| CodeGenerator::random_bool_vector(size, s)) {
                for (i, b) in v.values.iter().enumerate() {
                    if *b && i < seen.len() {
                        seen[i] = true;
                    }
                }
            }
        }
        if let Some(p) = seen.iter().position(|x| !*x) {
            rep.fail(
                ctx,
                Fail::new("C13/random_bool_vector/position-never-true", format!("size {} sparsity {}: position {} was never TRUE in {} draws (chance < 1e-13 if every position can be drawn)", size, s, p, d)),
                case,
            );
        } else {
            rep.nontrivial.insert(wi);
        }
    });
    rep.notes.push("700 draws per (size 2..16, sparsity 0.5 / 0.3): 16 * (15/16)^700 < 4e-19".into());
    rep.sample(json!({"fn": "random_bool_vector", "size": 16, "sparsity": "0.3", "draws": 700}));
    rep
}

fn int_vector(ctx: &Ctx, draws: u64) -> SubReport {
    let sizes = [0i32, 1, 2, 7, 32, 1000, 65_536, 65_537, 100_000, -1, i32::MIN];
    let pairs: Vec<(i32, i32)> = vec![(0, 1), (0, 10), (-5, 5), (3, 3), (5, 3), (i32::MIN, i32::MAX), (i32::MAX - 1, i32::MAX), (i32::MIN, i32::MIN + 1), (i32::MAX, i32::MIN), (0, 0), (-1, 0), (7, 8)];
    let work: Vec<(i32, (i32, i32))> = sizes.iter().flat_map(|n| pairs.iter().map(move |p| (*n, *p))).collect();
    let per = (draws / 20).max(2);
    let mut rep = par_map(ctx, "random_int_vector", work.len() as u64, |wi, rep| {
        let (size, (min, max)) = work[wi as usize];
        let per = if size > 1000 { 2 } else { per };
        let case = json!({"kind": "c13", "fn": "random_int_vector", "size": size, "min": min, "max": max});
        journal(&case);
        for _ in 0..per {
            rep.evaluations += 1;
            let valid = size >= 0 && min < max;
            match guarded(|| CodeGenerator::random_int_vector(size, min, max)) {
                Err((l, m)) => {
                    rep.fail(ctx, Fail::new(format!("C13/random_int_vector/panic@{}", l), format!("size {} [{}, {}): {}", size, min, max, m)), case.clone());
                    break;
                }
                Ok(None) => {
                    if valid {
                        rep.fail(ctx, Fail::new("C13/random_int_vector/none-for-valid-parameters", format!("size {} [{}, {})", size, min, max)), case.clone());
                        break;
                    }
                }
                Ok(Some(v)) => {
                    if !valid {
                        rep.fail(ctx, Fail::new("C13/random_int_vector/vector-for-invalid-parameters", format!("size {} [{}, {})", size, min, max)), case.clone());
                        break;
                    }
                    if v.values.len() != size as usize {
                        rep.fail(ctx, Fail::new("C13/random_int_vector/length", format!("size {} gave {}", size, v.values.len())), case.clone());
                        break;
                    }
                    if let Some(x) = v.values.iter().find(|x| **x < min || **x >= max) {
                        rep.fail(ctx, Fail::new("C13/random_int_vector/element-out-of-range", format!("element {} outside [{}, {})", x, min, max)), case.clone());
                        break;
                    }
                    if size >= 2 {
                        let mut h = Fnv::new();
                        h.u64(wi);
                        for b in &v.values {
                            h.u64(*b as u32 as u64);
                        }
                        rep.nontrivial.insert(h.0);
                    }
                }
            }
        }
    });
    rep.sample(json!({"fn": "random_int_vector", "size": 7, "min": -5, "max": 5}));
    rep
}

fn float_vector(ctx: &Ctx, draws: u64) -> SubReport {
    let sizes = [0i32, 1, 5, 32, 1000, 65_536, 65_537, 100_000, -1, i32::MIN];
    let means = [0.0f32, -3.5, 1e30, f32::NAN, f32::INFINITY];
    let sds = [0.0f32, 1.0, 0.001, 1e30, -1.0, -0.0, f32::NAN, f32::INFINITY, f32::NEG_INFINITY, f32::MIN_POSITIVE];
    let mut work = vec![];
    for n in sizes {
        for m in means {
            for s in sds {
                work.push((n, m, s));
            }
        }
    }
    let per = (draws / 20).max(2);
    let mut rep = par_map(ctx, "random_float_vector", work.len() as u64, |wi, rep| {
        let (size, mean, sd) = work[wi as usize];
        let per = if size > 1000 { 2 } else { per };
        let case = json!({"kind": "c13", "fn": "random_float_vector", "size": size, "mean": fjson(mean), "stddev": fjson(sd)});
        journal(&case);
        for _ in 0..per {
            rep.evaluations += 1;
            let valid = size >= 0 && sd >= 0.0 && sd.is_finite();
            match guarded(|| CodeGenerator::random_float_vector(size, mean, sd)) {
                Err((l, m)) => {
                    rep.fail(ctx, Fail::new(format!("C13/random_float_vector/panic@{}", l), format!("size {} mean {} stddev {}: {}", size, mean, sd, m)), case.clone());
                    break;
                }
                Ok(None) => {
                    if valid {
                        rep.fail(ctx, Fail::new("C13/random_float_vector/none-for-valid-parameters", format!("size {} mean {} stddev {}", size, mean, sd)), case.clone());
                        break;
                    }
                }
                Ok(Some(v)) => {
                    if !valid {
                        rep.fail(ctx, Fail::new("C13/random_float_vector/vector-for-invalid-parameters", format!("size {} mean {} stddev {}", size, mean, sd)), case.clone());
                        break;
                    }
                    if v.values.len() != size as usize {
                        rep.fail(ctx, Fail::new("C13/random_float_vector/length", format!("size {} gave {}", size, v.values.len())), case.clone());
                        break;
                    }
                    if sd == 0.0 && mean.is_finite() && v.values.iter().any(|x| *x != mean) {
                        rep.fail(ctx, Fail::new("C13/random_float_vector/zero-deviation", format!("stddev 0 but elements differ from the mean {}", mean)), case.clone());
                        break;
                    }
                    if size >= 2 && sd > 0.0 {
                        let mut h = Fnv::new();
                        h.u64(wi);
                        for b in &v.values {
                            h.u64(b.to_bits() as u64);
                        }
                        rep.nontrivial.insert(h.0);
                    }
                }
            }
        }
    });
    rep.sample(json!({"fn": "random_float_vector", "size": 5, "mean": "-3.5", "stddev": "1.0"}));
    rep
}

/// One call of a generator function; histories of such calls run back to back on one thread.
#[derive(Debug, Clone)]
enum Call {
    Int(i32, i32, i32),
    Float(i32, f32, f32),
    Bool(i32, f32),
}

fn call_json(c: &Call) -> Value {
    match c {
        Call::Int(n, a, b) => json!({"fn": "random_int_vector", "size": n, "min": a, "max": b}),
        Call::Float(n, m, sd) => json!({"fn": "random_float_vector", "size": n, "mean": fjson(*m), "stddev": fjson(*sd)}),
        Call::Bool(n, sp) => json!({"fn": "random_bool_vector", "size": n, "sparsity": fjson(*sp)}),
    }
}

fn call_from_json(v: &Value) -> Option<Call> {
    let n = v.get("size")?.as_i64()? as i32;
    match v.get("fn")?.as_str()? {
        "random_int_vector" => Some(Call::Int(n, v.get("min")?.as_i64()? as i32, v.get("max")?.as_i64()? as i32)),
        "random_float_vector" => Some(Call::Float(n, fparse(v.get("mean")?)?, fparse(v.get("stddev")?)?)),
        "random_bool_vector" => Some(Call::Bool(n, fparse(v.get("sparsity")?)?)),
        _ => None,
    }
}

/// the per-draw invariants of one call (the same ones the grids above state)
fn check_call(c: &Call, pos: usize) -> Result<bool, Fail> {
    match *c {
        Call::Int(size, min, max) => {
            let valid = size >= 0 && min < max;
            match guarded(|| CodeGenerator::random_int_vector(size, min, max)) {
                Err((l, m)) => Err(Fail::new(format!("C13/history/random_int_vector/panic@{}", l), format!("call {}: size {} [{}, {}): {}", pos, size, min, max, m))),
                Ok(None) if valid => Err(Fail::new("C13/history/random_int_vector/none-for-valid-parameters", format!("call {}: size {} [{}, {})", pos, size, min, max))),
                Ok(None) => Ok(false),
                Ok(Some(_)) if !valid => Err(Fail::new("C13/history/random_int_vector/vector-for-invalid-parameters", format!("call {}: size {} [{}, {})", pos, size, min, max))),
                Ok(Some(v)) => {
                    if v.values.len() != size as usize {
                        return Err(Fail::new("C13/history/random_int_vector/length", format!("call {}: size {} gave {}", pos, size, v.values.len())));
                    }
                    if let Some(x) = v.values.iter().find(|x| **x < min || **x >= max) {
                        return Err(Fail::new("C13/history/random_int_vector/element-out-of-range", format!("call {}: element {} outside [{}, {})", pos, x, min, max)));
                    }
                    Ok(size >= 2)
                }
            }
        }
        Call::Float(size, mean, sd) => {
            let valid = size >= 0 && sd >= 0.0 && sd.is_finite();
            match guarded(|| CodeGenerator::random_float_vector(size, mean, sd)) {
                Err((l, m)) => Err(Fail::new(format!("C13/history/random_float_vector/panic@{}", l), format!("call {}: size {} mean {} stddev {}: {}", pos, size, mean, sd, m))),
                Ok(None) if valid => Err(Fail::new("C13/history/random_float_vector/none-for-valid-parameters", format!("call {}: size {} mean {} stddev {}", pos, size, mean, sd))),
                Ok(None) => Ok(false),
                Ok(Some(_)) if !valid => Err(Fail::new("C13/history/random_float_vector/vector-for-invalid-parameters", format!("call {}: size {} mean {} stddev {}", pos, size, mean, sd))),
                Ok(Some(v)) => {
                    if v.values.len() != size as usize {
                        return Err(Fail::new("C13/history/random_float_vector/length", format!("call {}: size {} gave {}", pos, size, v.values.len())));
                    }
                    if sd == 0.0 && mean.is_finite() && v.values.iter().any(|x| *x != mean) {
                        return Err(Fail::new("C13/history/random_float_vector/zero-deviation", format!("call {}: stddev 0 but elements differ from the mean {}", pos, mean)));
                    }
                    // 12 deviations: probability below 1e-30 per element for a normal law
                    if sd > 0.0 && sd < 1e3 && mean.is_finite() && mean.abs() < 1e6 {
                        if let Some(x) = v.values.iter().find(|x| !x.is_finite() || ((**x - mean).abs() as f64) > 12.0 * sd as f64 + 1e-3 * mean.abs() as f64) {
                            return Err(Fail::new("C13/history/random_float_vector/element-far-from-mean", format!("call {}: element {} with mean {} stddev {}", pos, x, mean, sd)));
                        }
                    }
                    Ok(size >= 2 && sd > 0.0)
                }
            }
        }
        Call::Bool(size, s) => {
            let valid = size >= 0 && s >= 0.0 && s <= 1.0;
            match guarded(|| CodeGenerator::random_bool_vector(size, s)) {
                Err((l, m)) => Err(Fail::new(format!("C13/history/random_bool_vector/panic@{}", l), format!("call {}: size {} sparsity {}: {}", pos, size, s, m))),
                Ok(None) if valid => Err(Fail::new("C13/history/random_bool_vector/none-for-valid-parameters", format!("call {}: size {} sparsity {}", pos, size, s))),
                Ok(None) => Ok(false),
                Ok(Some(_)) if !valid => Err(Fail::new("C13/history/random_bool_vector/vector-for-invalid-parameters", format!("call {}: size {} sparsity {}", pos, size, s))),
                Ok(Some(v)) => {
                    if v.values.len() != size as usize {
                        return Err(Fail::new("C13/history/random_bool_vector/length", format!("call {}: size {} gave {}", pos, size, v.values.len())));
                    }
                    let (default, ok) = allowed_counts(size, s);
                    let nondefault = v.values.iter().filter(|b| **b != default).count() as i64;
                    if !ok.contains(&nondefault) {
                        return Err(Fail::new("C13/history/random_bool_vector/true-count", format!("call {}: size {} sparsity {}: {} non-default bits, expected {:?}", pos, size, s, nondefault, ok)));
                    }
                    Ok(size >= 4 && s > 0.0 && s < 1.0)
                }
            }
        }
    }
}

fn history_strategy() -> BoxedStrategy<Vec<Call>> {
    use proptest::prelude::*;
    // small pools: consecutive calls share one bound / parameter and differ in the other
    let ints = prop::sample::select(vec![-1000i32, -20, -10, -5, -1, 0, 1, 5, 10, 20, 1000, i32::MIN, i32::MIN + 1, i32::MAX - 1, i32::MAX]);
    let sizes = prop::sample::select(vec![0i32, 1, 2, 3, 8, 17, 64, -1, -3]);
    let means = prop::sample::select(vec![0.0f32, -3.5, 2.0, 100.0, 1e30, f32::NAN, f32::INFINITY]);
    let sds = prop::sample::select(vec![0.0f32, 1.0, 0.5, 0.001, 10.0, -1.0, f32::NAN, f32::INFINITY]);
    let sps = prop::sample::select(vec![0.0f32, 0.1, 0.25, 0.5, 0.75, 0.9, 1.0, 1.5, -0.5]);
    let call = prop_oneof![
        4 => (sizes.clone(), ints.clone(), ints).prop_map(|(n, a, b)| Call::Int(n, a, b)),
        3 => (sizes.clone(), means, sds).prop_map(|(n, m, s)| Call::Float(n, m, s)),
        2 => (sizes, sps).prop_map(|(n, s)| Call::Bool(n, s)),
    ];
    prop::collection::vec(call, 2..8).boxed()
}

fn judge_history(h: &Vec<Call>) -> CaseResult {
    let mut nt = 0;
    let mut hh = Fnv::new();
    for (i, c) in h.iter().enumerate() {
        journal(&json!({"kind": "c13", "fn": "history", "calls": h.iter().map(call_json).collect::<Vec<_>>()}));
        if check_call(c, i)? {
            nt += 1;
        }
        hh.u64(match c {
            Call::Int(n, a, b) => (*n as u32 as u64) ^ ((*a as u32 as u64) << 20) ^ ((*b as u32 as u64) << 40) ^ 1,
            Call::Float(n, m, s) => (*n as u32 as u64) ^ ((m.to_bits() as u64) << 20) ^ ((s.to_bits() as u64) << 30) ^ 2,
            Call::Bool(n, s) => (*n as u32 as u64) ^ ((s.to_bits() as u64) << 24) ^ 3,
        });
    }
    // same kind of call twice with one shared parameter
    let shared = h.windows(2).any(|w| match (&w[0], &w[1]) {
        (Call::Int(_, a, b), Call::Int(_, c, d)) => (a == c) != (b == d),
        (Call::Float(_, a, b), Call::Float(_, c, d)) => (a.to_bits() == c.to_bits()) != (b.to_bits() == d.to_bits()),
        (Call::Bool(n, _), Call::Bool(m, _)) => n == m,
        _ => false,
    });
    Ok(CaseOut::new(nt >= 2, hh.0).class(if shared { "consecutive calls sharing one parameter" } else { "no shared parameter" }))
}

/// histories of generator calls on one thread: every call of the history satisfies the per-draw
/// invariants whatever was drawn, and with which parameters, before it
fn histories(ctx: &Ctx, n: u64) -> SubReport {
    let mut rep = run_sharded(ctx, "call-histories", n, history_strategy, judge_history, |h: &Vec<Call>| json!({"kind": "c13", "fn": "history", "calls": h.iter().map(call_json).collect::<Vec<_>>()}));
    rep.notes.push("2..7 calls of random_int_vector / random_float_vector / random_bool_vector back to back on one thread, parameters from small pools so that consecutive calls share one bound and differ in the other; the per-draw invariants hold for every call of the history (a float element is additionally required to lie within 12 deviations of the mean: probability < 1e-30 per element)".into());
    rep
}

/// the RAND instructions through the registry: operands consumed, at most one item pushed,
/// value inside the configured / requested bounds, nothing else touched
fn instructions(ctx: &Ctx, draws: u64) -> SubReport {
    #[derive(Clone)]
    struct W {
        name: &'static str,
        state: StateSpec,
    }
    let mut work: Vec<W> = vec![];
    let base = || {
        let mut s = StateSpec::default();
        s.bools = vec![true];
        s.names = vec!["keep".into()];
        s.code = vec![ItemSpec::Int(5)];
        s
    };
    // INTEGER.RAND / FLOAT.RAND over configuration bounds
    for (imin, imax) in [(-10, 10), (0, 1), (5, 5), (9, 3), (i32::MIN, i32::MAX), (i32::MAX - 1, i32::MAX)] {
        let mut s = base();
        s.config.min_random_integer = imin;
        s.config.max_random_integer = imax;
        s.ints = vec![42];
        work.push(W { name: "INTEGER.RAND", state: s });
    }
    let up = |x: f32, k: u32| f32::from_bits(x.to_bits() + k);
    for (fmin, fmax) in [(-1.0f32, 1.0), (0.0, 1e-30), (2.0, 2.0), (3.0, -3.0), (-1e30, 1e30), (f32::NAN, 1.0), (0.0, f32::INFINITY), (0.1, up(0.1, 3)), (16777216.0, 16777220.0), (1.0, up(1.0, 1)), (-8.0, up(-8.0, 0) + 0.000002)] {
        let mut s = base();
        s.config.min_random_float = fmin;
        s.config.max_random_float = fmax;
        s.floats = vec![0.25];
        work.push(W { name: "FLOAT.RAND", state: s });
    }
    work.push(W { name: "BOOLEAN.RAND", state: base() });
    work.push(W { name: "NAME.RAND", state: base() });
    for nb in [0usize, 1, 5] {
        let mut s = base();
        for i in 0..nb {
            s.bindings.insert(format!("bound{}", i), ItemSpec::Bool(true));
        }
        work.push(W { name: "NAME.RANDBOUNDNAME", state: s });
    }
    for (size, sp) in [(8, 0.25f32), (0, 0.5), (5, 1.0), (5, 0.0), (-1, 0.5), (5, 1.5), (5, f32::NAN), (33, 0.5)] {
        let mut s = base();
        s.ints = vec![size, 7];
        s.floats = vec![sp, 9.5];
        work.push(W { name: "BOOLVECTOR.RAND", state: s });
    }
    for (size, max, min) in [(4, 10, 0), (0, 1, 0), (4, 3, 3), (4, 2, 5), (-2, 9, 1), (3, i32::MAX, i32::MIN)] {
        let mut s = base();
        s.ints = vec![size, max, min, 7];
        work.push(W { name: "INTVECTOR.RAND", state: s });
    }
    for (size, mean, sd) in [(4, 0.0f32, 1.0f32), (0, 0.0, 1.0), (3, 2.0, 0.0), (3, 0.0, -1.0), (-1, 0.0, 1.0), (3, 0.0, f32::NAN), (3, 0.0, f32::INFINITY)] {
        let mut s = base();
        s.ints = vec![size, 7];
        s.floats = vec![mean, sd, 9.5];
        work.push(W { name: "FLOATVECTOR.RAND", state: s });
    }
    let per = (draws / 10).max(2);
    let mut rep = par_map(ctx, "RAND-instructions", work.len() as u64, |wi, rep| {
        let w = &work[wi as usize];
        let s = &w.state;
        let case = json!({"kind": "instr", "instruction": w.name, "state": s.to_json()});
        for _ in 0..per {
            rep.evaluations += 1;
            crate::supervise::journal_instr("C13", w.name, s);
            let a = match step_named_on(s, w.name) {
                Ok(a) => a,
                Err((l, m)) => {
                    rep.fail(ctx, Fail::new(format!("C13/{}/panic@{}", w.name, l), format!("{} | {}", m, s.brief())), case.clone());
                    break;
                }
            };
            let mut e = s.clone();
            let mut fail: Option<(String, String)> = None;
            match w.name {
                "INTEGER.RAND" => {
                    let (lo, hi) = (s.config.min_random_integer, s.config.max_random_integer);
                    if lo < hi {
                        match a.ints.first() {
                            Some(v) if a.ints.len() == s.ints.len() + 1 && *v >= lo && *v < hi => e.ints.insert(0, *v),
                            _ => fail = Some(("value-out-of-range".into(), format!("INTEGER stack {:?} with bounds [{}, {})", a.ints, lo, hi))),
                        }
                    }
                }
                "FLOAT.RAND" => {
                    let (lo, hi) = (s.config.min_random_float, s.config.max_random_float);
                    if lo < hi {
                        match a.floats.first() {
                            Some(v) if a.floats.len() == s.floats.len() + 1 && *v >= lo && *v < hi => e.floats.insert(0, *v),
                            // a range whose width is not finite admits no uniform sample: no value is acceptable
                            _ if !(hi - lo).is_finite() && a.floats.len() == s.floats.len() => {}
                            _ => fail = Some(("value-out-of-range".into(), format!("FLOAT stack {:?} with bounds [{}, {})", a.floats, lo, hi))),
                        }
                    }
                }
                "BOOLEAN.RAND" => {
                    if a.bools.len() == s.bools.len() + 1 {
                        e.bools.insert(0, a.bools[0]);
                    }
                }
                "NAME.RAND" => {
                    if a.names.len() == s.names.len() + 1 {
                        e.names.insert(0, a.names[0].clone());
                    }
                }
                "NAME.RANDBOUNDNAME" => {
                    if a.names.len() == s.names.len() + 1 {
                        if !s.bindings.is_empty() && !s.bindings.contains_key(&a.names[0]) {
                            fail = Some(("not-a-bound-name".into(), format!("pushed {:?} but the bound names are {:?}", a.names[0], s.bindings.keys().collect::<Vec<_>>())));
                        }
                        e.names.insert(0, a.names[0].clone());
                    }
                }
                "BOOLVECTOR.RAND" => {
                    let (size, sp) = (s.ints[0], s.floats[0]);
                    e.ints.remove(0);
                    e.floats.remove(0);
                    let valid = size >= 0 && sp >= 0.0 && sp <= 1.0;
                    if valid {
                        match a.bvecs.first() {
                            Some(v) if a.bvecs.len() == 1 && v.len() == size as usize => {
                                let (default, ok) = allowed_counts(size, sp);
                                let nd = v.iter().filter(|b| **b != default).count() as i64;
                                if !ok.contains(&nd) {
                                    fail = Some(("true-count".into(), format!("{} non-default bits, expected {:?}", nd, ok)));
                                }
                                e.bvecs.insert(0, v.clone());
                            }
                            _ => fail = Some(("no-vector-for-valid-parameters".into(), format!("BOOLVECTOR stack {:?}", a.bvecs))),
                        }
                    }
                }
                "INTVECTOR.RAND" => {
                    let (size, max, min) = (s.ints[0], s.ints[1], s.ints[2]);
                    e.ints.drain(0..3);
                    if size >= 0 && min < max {
                        match a.ivecs.first() {
                            Some(v) if a.ivecs.len() == 1 && v.len() == size as usize && v.iter().all(|x| *x >= min && *x < max) => e.ivecs.insert(0, v.clone()),
                            _ => fail = Some(("vector-wrong".into(), format!("INTVECTOR stack {:?} for size {} [{}, {})", a.ivecs, size, min, max))),
                        }
                    }
                }
                "FLOATVECTOR.RAND" => {
                    let (size, sd) = (s.ints[0], s.floats[1]);
                    e.ints.remove(0);
                    e.floats.drain(0..2);
                    if size >= 0 && sd >= 0.0 && sd.is_finite() {
                        match a.fvecs.first() {
                            Some(v) if a.fvecs.len() == 1 && v.len() == size as usize => e.fvecs.insert(0, v.clone()),
                            _ => fail = Some(("vector-wrong".into(), format!("FLOATVECTOR stack {:?} for size {}", a.fvecs, size))),
                        }
                    }
                }
                _ => {}
            }
            if fail.is_none() && e != a {
                fail = Some(("shape".into(), e.diff(&a).unwrap_or_default()));
            }
            if let Some((what, detail)) = fail {
                rep.fail(ctx, Fail::new(format!("C13/{}/{}", w.name, what), format!("{} | before: {}", detail, s.brief())), case.clone());
                break;
            }
            rep.nontrivial.insert(a.digest() ^ wi);
        }
    });
    rep.sample(json!({"instruction": "INTVECTOR.RAND", "brief": "INTEGER=[4, 10, 0, 7]"}));
    rep
}

pub fn run(ctx: &Ctx) -> PropReport {
    let mut rep = PropReport::new(
        "random_bool_vector over sizes 0..32, 100, 1000, negative x sparsity grid k/100 plus out-of-range / infinite / NaN; random_int_vector and random_float_vector over sizes x (min,max) incl. equal, reversed, full range x (mean, deviation) incl. 0, negative, infinite, NaN; the seven RAND instructions and NAME.RANDBOUNDNAME over operand and configuration tuples; many draws each; non-trivial = valid parameters with size >= 2 (>= 4 for bit vectors); distinct = hash of (setting, drawn value)",
        "INV on every draw: length = size, elements in [min,max), TRUE count = the documented rounding of sparsity x size (complemented above 0.5), invalid parameters give no vector, instruction operands consumed and nothing else touched, RANDBOUNDNAME in the binding keys; never a panic (hangs are caught by the supervising parent). Coverage INV: every position of a bit vector becomes TRUE within 700 draws (false alarm < 1e-13).",
    );
    rep.assumptions.push("documented rounding of BOOLVECTOR.RAND: share of non-default bits rounded to two decimals, count = truncated product; when the exact product is within 0.2 of an integer the neighbouring count is accepted too (float truncation)".into());
    let d = ctx.tier.pick(20_000u64, 200_000u64);
    rep.push(bool_vector(ctx, d));
    rep.push(position_coverage(ctx));
    rep.push(int_vector(ctx, d));
    rep.push(float_vector(ctx, d));
    rep.push(instructions(ctx, d));
    rep.push(histories(ctx, ctx.tier.pick(60_000u64, 1_000_000u64)));
    rep
}

/// crash-only execution of a journalled API call
pub fn exec_journalled(v: &Value) -> Result<(), String> {
    let f = v.get("fn").and_then(|x| x.as_str()).unwrap_or("");
    let size = v.get("size").and_then(|x| x.as_i64()).unwrap_or(0) as i32;
    let r = guarded(|| {
        for _ in 0..200 {
            match f {
                "random_bool_vector" => {
                    let _ = CodeGenerator::random_bool_vector(size, v.get("sparsity").and_then(fparse).unwrap_or(0.5));
                }
                "random_int_vector" => {
                    let _ = CodeGenerator::random_int_vector(size, v.get("min").and_then(|x| x.as_i64()).unwrap_or(0) as i32, v.get("max").and_then(|x| x.as_i64()).unwrap_or(1) as i32);
                }
                "history" => {
                    if let Some(a) = v.get("calls").and_then(|x| x.as_array()) {
                        for c in a.iter().filter_map(call_from_json) {
                            let _ = check_call(&c, 0);
                        }
                    }
                }
                "random_float_vector" => {
                    let _ = CodeGenerator::random_float_vector(size, v.get("mean").and_then(fparse).unwrap_or(0.0), v.get("stddev").and_then(fparse).unwrap_or(1.0));
                }
                _ => {}
            }
        }
    });
    r.map_err(|(l, m)| format!("panic at {}: {}", l, m))
}

pub fn replay(ctx: &Ctx, _sub: &str, case: &Value) -> Result<(), Fail> {
    // unseedable: re-run the sub-check the case belongs to (quick size) and report its first violation
    let f = case.get("fn").and_then(|x| x.as_str()).unwrap_or("");
    if f == "history" {
        let h: Vec<Call> = case.get("calls").and_then(|x| x.as_array()).map(|a| a.iter().filter_map(call_from_json).collect()).unwrap_or_default();
        // unseedable draws: the history is repeated; a history-dependent failure shows on the first pass
        for _ in 0..200 {
            judge_history(&h)?;
        }
        return Ok(());
    }
    let r = match f {
        "random_bool_vector" => {
            if case.get("coverage").is_some() {
                position_coverage(ctx)
            } else {
                bool_vector(ctx, 400)
            }
        }
        "random_int_vector" => int_vector(ctx, 400),
        "random_float_vector" => float_vector(ctx, 400),
        _ => instructions(ctx, 400),
    };
    match r.violations.first() {
        Some(v) => Err(Fail::new(v.signature.clone(), v.detail.clone())),
        None => Ok(()),
    }
}
