//! C11 — printing a program and parsing the text back reproduces the program.

use crate::engine::*;
use crate::exec::{step_named_on, with_machine};
use crate::gen;
use crate::props::c03::{name_token, parse_into};
use crate::refmodel::print_item;
use crate::spec::*;
use proptest::prelude::*;
use pushr::push::item::Item;
use pushr::push::random::CodeGenerator;
use pushr::push::stack::PushStack;
use serde_json::{json, Value};

fn atom(with_floats: bool) -> BoxedStrategy<ItemSpec> {
    let mut alts: Vec<(u32, BoxedStrategy<ItemSpec>)> = vec![
        (4, gen::int_pool().prop_map(ItemSpec::Int).boxed()),
        (2, any::<bool>().prop_map(ItemSpec::Bool).boxed()),
        (4, name_token().prop_map(ItemSpec::Name).boxed()),
        (5, prop::sample::select(crate::exec::registry_names()).prop_map(ItemSpec::Instr).boxed()),
    ];
    if with_floats {
        alts.push((
            5,
            prop_oneof![
                3 => gen::float_pool(),
                2 => (-100000i32..100000).prop_map(|v| v as f32 / 1000.0),
                1 => prop::sample::select(vec![0.0005f32, 0.0004, 1.23456, 999.9995, -0.0001, 1e30, 1e-30, 16777216.0, 0.1, 2.675]),
            ]
            .prop_map(ItemSpec::Float)
            .boxed(),
        ));
    }
    proptest::strategy::Union::new_weighted(alts).boxed()
}
fn tree(with_floats: bool, depth: u32, size: u32) -> BoxedStrategy<ItemSpec> {
    atom(with_floats).prop_recursive(depth, size, 5, |inner| prop::collection::vec(inner, 0..=5).prop_map(ItemSpec::List)).boxed()
}

fn has_float(t: &ItemSpec) -> bool {
    t.preorder().iter().any(|x| matches!(x, ItemSpec::Float(_)))
}
fn shape(t: &ItemSpec) -> String {
    match t {
        ItemSpec::List(v) => format!("({})", v.iter().map(shape).collect::<Vec<_>>().join(" ")),
        ItemSpec::Float(_) => "F".into(),
        ItemSpec::Int(_) => "I".into(),
        ItemSpec::Bool(_) => "B".into(),
        ItemSpec::Name(_) => "N".into(),
        ItemSpec::Instr(_) => "X".into(),
        _ => "?".into(),
    }
}

/// three printers
fn print_via(items: &[ItemSpec], printer: u8) -> Result<String, Fail> {
    let r = guarded(|| match printer {
        0 => items.iter().map(|t| t.to_item().to_string()).collect::<Vec<_>>().join(" "),
        1 => {
            // PushStack<Item>::to_string prints top first; items[0] is the top
            let st: PushStack<Item> = PushStack::from_vec(items.iter().rev().map(|t| t.to_item()).collect());
            st.to_string()
        }
        _ => {
            let mut s = StateSpec::default();
            s.code = items.to_vec();
            match step_named_on(&s, "CODE.PRINT") {
                Ok(a) => a.names.first().cloned().unwrap_or_default(),
                Err((loc, msg)) => format!("<panic {} {}>", loc, msg),
            }
        }
    });
    r.map_err(|(loc, msg)| Fail::new(format!("C11/print/panic@{}", loc), msg))
}

fn judge(items: &Vec<ItemSpec>, printer: u8) -> CaseResult {
    let pname = ["Item::to_string", "PushStack::to_string", "CODE.PRINT"][printer as usize % 3];
    let text = print_via(items, printer % 3)?;
    let parsed = parse_into(&StateSpec::default(), &text).map_err(|(loc, msg)| Fail::new(format!("C11/parse/panic@{}", loc), format!("{}: {} | text {:?}", loc, msg, text)))?;
    // no other stack touched
    let mut other = parsed.clone();
    other.exec.clear();
    if other != StateSpec::default() {
        return Err(Fail::new("C11/other-stack-touched", format!("text {:?}", text)));
    }
    let floats = items.iter().any(has_float);
    if !floats {
        if parsed.exec != *items {
            return Err(Fail::new(
                format!("C11/roundtrip/{}", pname),
                format!("printed {:?}; parsed back [{}] but the program is [{}]", text, parsed.exec.iter().map(|x| x.render()).collect::<Vec<_>>().join(" | "), items.iter().map(|x| x.render()).collect::<Vec<_>>().join(" | ")),
            ));
        }
        // the result depends on the text and the registry only: the same text parsed on this
        // thread with an EMPTY registry gives the same tree with every instruction token as a
        // name, and a following parse with the full registry gives the program again
        if hash_str(&text) % 3 == 0 {
            fn as_names(t: &ItemSpec) -> ItemSpec {
                match t {
                    ItemSpec::List(v) => ItemSpec::List(v.iter().map(as_names).collect()),
                    ItemSpec::Instr(n) => ItemSpec::Name(n.clone()),
                    x => x.clone(),
                }
            }
            let want: Vec<ItemSpec> = items.iter().map(as_names).collect();
            let got = guarded(|| {
                let mut st = pushr::push::state::PushState::new();
                let empty = pushr::push::instructions::InstructionSet::new();
                pushr::push::parser::PushParser::parse_program(&mut st, &empty, &text);
                StateSpec::snapshot(&st).exec
            })
            .map_err(|(loc, msg)| Fail::new(format!("C11/parse/panic@{}", loc), format!("empty registry: {} | text {:?}", msg, text)))?;
            if got != want {
                return Err(Fail::new("C11/roundtrip/empty-registry", format!("text {:?} parsed with an empty instruction set gives [{}] (instruction tokens must come back as names)", text, got.iter().map(|x| format!("{:?}", x)).collect::<Vec<_>>().join(" | ").chars().take(300).collect::<String>())));
            }
            let again = parse_into(&StateSpec::default(), &text).map_err(|(loc, msg)| Fail::new(format!("C11/parse/panic@{}", loc), format!("{}: {} | text {:?}", loc, msg, text)))?;
            if again.exec != *items {
                return Err(Fail::new("C11/roundtrip/registry-remembered-between-calls", format!("text {:?}: parsing with the full registry after an empty-registry parse no longer gives the program", text)));
            }
        }
        // pushr's own deep equality agrees
        for (a, b) in parsed.exec.iter().zip(items.iter()) {
            if !Item::equals(&a.to_item(), &b.to_item()) {
                return Err(Fail::new("C11/roundtrip/Item::equals", format!("Item::equals says the re-parsed item differs: {}", a.render())));
            }
        }
    } else {
        // exact at the printed precision: print(parse(print t)) = print t, same shapes
        let text2 = print_via(&parsed.exec, printer % 3)?;
        if text2 != text {
            return Err(Fail::new(format!("C11/reprint/{}", pname), format!("printed {:?}, parse + print gives {:?}", text, text2)));
        }
        let (s1, s2) = (items.iter().map(shape).collect::<Vec<_>>(), parsed.exec.iter().map(shape).collect::<Vec<_>>());
        if s1 != s2 {
            return Err(Fail::new(format!("C11/shape/{}", pname), format!("printed {:?}: shape {:?} became {:?}", text, s1, s2)));
        }
    }
    // independent printer agrees with pushr's (documents the print format we rely on)
    // The concrete print format (blank-separated tokens, three decimals) is not part of the
    // property - any format that survives the round trip is acceptable - so a difference from
    // the format described in the instruction comments is only counted, never reported.
    let mine = items.iter().map(print_item).collect::<Vec<_>>().join(" ");
    let leaves: usize = items.iter().map(|t| t.atoms().len()).sum();
    let nested = items.iter().any(|t| t.depth() >= 2);
    let mut out = CaseOut::new(nested && leaves >= 4, hash_str(&text)).class(pname).class(if floats { "with-floats" } else { "float-free" });
    if mine != text {
        out = out.class("print format differs from the commented one (not part of the property)");
    }
    Ok(out)
}

/// programs from pushr's own random code generator (full cache, with and without bindings)
fn judge_generated(size: usize, with_bindings: bool, printer: u8) -> CaseResult {
    let item = guarded(|| {
        with_machine(|m| {
            let mut s = StateSpec::default();
            if with_bindings {
                s.bindings.insert("foo".into(), ItemSpec::Int(1));
                s.bindings.insert("bar".into(), ItemSpec::Bool(true));
            }
            let (st, _) = s.build();
            CodeGenerator::random_code_with_size(&st, &m.icache, size)
        })
    })
    .map_err(|(loc, msg)| Fail::new(format!("C11/generator/panic@{}", loc), msg))?;
    let spec = ItemSpec::from_item(&item);
    judge(&vec![spec], printer)
}

pub fn run(ctx: &Ctx) -> PropReport {
    let mut rep = PropReport::new(
        "stacks of 1..5 item trees over {list incl. empty, int pool, bool, parser-producible name, registered instruction} and the same plus floats (pool incl. +-0, +-inf, NaN, > 3 decimals, 1e30), printed by Item::to_string, PushStack::to_string and CODE.PRINT; plus trees emitted by random_code_with_size(1..200); non-trivial = >= 1 nested list and >= 4 leaves; distinct = printed text",
        "RT oracle: float-free: parse(print t) is structurally equal to t (own walker and Item::equals), same order; with floats: print(parse(print t)) = print t and the tree shapes (incl. leaf kinds) agree. INV: no stack other than EXEC touched.",
    );
    rep.assumptions.push("vector literals, names containing blanks, INDEX and GRAPH literals are outside the property's tree language".into());
    let (d, sz) = ctx.tier.pick((5u32, 30u32), (8, 120));
    for (sub, wf) in [("float-free", false), ("with-floats", true)] {
        rep.push(run_sharded(
            ctx,
            sub,
            ctx.tier.pick(150_000, 1_500_000),
            move || (prop::collection::vec(tree(wf, d, sz), 1..=5), 0u8..3),
            |(items, p): &(Vec<ItemSpec>, u8)| judge(items, *p),
            |(items, p)| json!({"items": items.iter().map(|x| x.to_json()).collect::<Vec<_>>(), "printer": p, "text": items.iter().map(print_item).collect::<Vec<_>>().join(" ")}),
        ));
    }
    // deep combs: nesting up to 300 levels with atoms at every level
    let mut deep = SubReport::new("deep-nesting-roundtrip");
    for depth in [20usize, 63, 64, 65, 100, 128, 129, 200, 300] {
        let mut t = ItemSpec::List(vec![ItemSpec::Int(7), ItemSpec::name("leaf")]);
        for k in 0..depth {
            t = ItemSpec::List(vec![ItemSpec::Int(k as i32), t, ItemSpec::Bool(k % 2 == 0)]);
        }
        for p in 0..3u8 {
            deep.evaluations += 1;
            match judge(&vec![t.clone()], p) {
                Ok(o) => deep.record_only(&o),
                Err(f) => deep.fail(ctx, f, json!({"items": [t.to_json()], "printer": p, "text": format!("comb of depth {}", depth)})),
            }
        }
    }
    deep.sample(json!({"text": "( 2 ( 1 ( 0 ( 7 leaf ) TRUE ) FALSE ) TRUE ) ... up to 300 levels"}));
    rep.push(deep);
    // wide programs: one list with n children, and n top-level items (no documented capacity)
    let mut wide = SubReport::new("wide-roundtrip");
    for n in ctx.tier.pick(vec![999usize, 1000, 1001, 4097, 10_000, 10_001, 30_000], vec![999, 1000, 1001, 4097, 10_000, 10_001, 30_000, 65_537, 200_000]) {
        let children: Vec<ItemSpec> = (0..n).map(|k| match k % 4 {
            0 => ItemSpec::Int(k as i32),
            1 => ItemSpec::name(&format!("n{}", k)),
            2 => ItemSpec::Bool(k % 8 == 2),
            _ => ItemSpec::List(vec![ItemSpec::Int(-(k as i32))]),
        }).collect();
        for (shape, items) in [("one list", vec![ItemSpec::List(children.clone())]), ("top-level items", children.clone())] {
            for p in 0..2u8 {
                wide.evaluations += 1;
                match judge(&items, p) {
                    Ok(o) => wide.record_only(&o),
                    Err(mut f) => {
                        f.detail = f.detail.chars().take(400).collect();
                        wide.fail(ctx, f, json!({"wide": n, "shape": shape, "printer": p}))
                    }
                }
            }
        }
    }
    wide.sample(json!({"text": "( 0 n1 FALSE ( -3 ) 4 n5 TRUE ( -7 ) ... ) with up to 30 000 children, and the same items at top level"}));
    rep.push(wide);
    // generator output
    let n = ctx.tier.pick(15_000u64, 200_000u64);
    let mut g = par_map(ctx, "random-code-generator", n, |i, rep| {
        let size = 1 + (i as usize * 7) % 200;
        rep.evaluations += 1;
        match judge_generated(size, i % 2 == 0, (i % 3) as u8) {
            Ok(o) => rep.record_only(&o),
            Err(f) => rep.fail(ctx, f, json!({"generated_size": size, "with_bindings": i % 2 == 0, "printer": i % 3})),
        }
    });
    g.notes.push("items drawn by pushr's own generator (unseedable): every draw must round-trip; a failure stores the generation parameters".into());
    g.sample(json!({"generated_size": 8, "with_bindings": true, "printer": 0}));
    rep.push(g);
    if ctx.tier == Tier::Thorough {
        let mut r = crate::fuzzrun::campaign(ctx, "C11", "roundtrip_text", 16_000_000, 256);
        r.notes.push("target: any text s, t = parse(s); if t lies in the property's tree language parse(print(t)) must equal t (Item::equals), with floats print(parse(print(t))) = print(t); token dictionary fuzz/dict/roundtrip_text.dict".into());
        rep.push(r);
    }
    rep
}

pub fn replay(_ctx: &Ctx, sub: &str, case: &Value) -> Result<(), Fail> {
    let bad = || Fail::new("replay-format", "cannot decode C11 case");
    if sub == "random-code-generator" {
        let size = case.get("generated_size").and_then(|x| x.as_u64()).ok_or_else(bad)? as usize;
        let wb = case.get("with_bindings").and_then(|x| x.as_bool()).unwrap_or(false);
        let p = case.get("printer").and_then(|x| x.as_u64()).unwrap_or(0) as u8;
        // the generator cannot be seeded: re-draw 2000 times under the same parameters
        for _ in 0..2000 {
            judge_generated(size, wb, p)?;
        }
        return Ok(());
    }
    let items = case.get("items").and_then(|x| x.as_array()).ok_or_else(bad)?.iter().map(ItemSpec::from_json).collect::<Option<Vec<_>>>().ok_or_else(bad)?;
    let p = case.get("printer").and_then(|x| x.as_u64()).unwrap_or(0) as u8;
    judge(&items, p).map(|_| ())
}
