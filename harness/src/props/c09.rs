//! C09 — vector instructions: lengths, offsets, indices, dispatch.

use crate::engine::*;
use crate::footprint;
use crate::gen;
use crate::single::*;
use crate::spec::*;
use proptest::prelude::*;
use serde_json::{json, Value};

pub fn names() -> Vec<String> {
    let reg = crate::exec::registry_names();
    footprint::table().values().filter(|f| f.owner == "C09" && reg.contains(&f.name)).map(|f| f.name.clone()).collect()
}
const ELEMENTWISE: [&str; 9] = [
    "BOOLVECTOR.AND", "BOOLVECTOR.OR", "BOOLVECTOR.NOT", "INTVECTOR.+", "INTVECTOR.-", "FLOATVECTOR.+", "FLOATVECTOR.-", "FLOATVECTOR.*", "FLOATVECTOR./",
];

fn overlap_class(name: &str, s: &StateSpec) -> (bool, String) {
    // (non-trivial, class label) for element-wise operations
    let t = name.split('.').next().unwrap();
    let (l1, l0) = match t {
        "BOOLVECTOR" => (s.bvecs.get(1).map(|v| v.len()), s.bvecs.get(0).map(|v| v.len())),
        "INTVECTOR" => (s.ivecs.get(1).map(|v| v.len()), s.ivecs.get(0).map(|v| v.len())),
        _ => (s.fvecs.get(1).map(|v| v.len()), s.fvecs.get(0).map(|v| v.len())),
    };
    let (l1, l0) = match (l1, l0, name == "BOOLVECTOR.NOT") {
        (_, Some(a), true) => (a, a),
        (Some(a), Some(b), false) => (a, b),
        _ => return (false, "missing".into()),
    };
    let o = match s.ints.first() {
        Some(o) => *o as i64,
        None => return (false, "missing".into()),
    };
    let overlap = (0..l0 as i64).filter(|i| i + o >= 0 && i + o < l1 as i64).count();
    let class = if overlap == 0 {
        "none"
    } else if overlap == l0 && overlap == l1 {
        "total"
    } else {
        "partial"
    };
    let lens = if l0 == l1 { "eq" } else if l0 < l1 { "top-shorter" } else { "top-longer" };
    ((l0 > 0 && l1 > 0 && class == "partial") || l0 != l1, format!("{}/{}/{}", lens, class, if o < 0 { "neg" } else if o == 0 { "zero" } else { "pos" }))
}

fn judge(name: &str, s: &StateSpec) -> CaseResult {
    let j = judge_instr("C09", name, s, false)?;
    let mut h = Fnv::new();
    h.str(name);
    h.u64(s.digest());
    if ELEMENTWISE.contains(&name) {
        let (nt, class) = overlap_class(name, s);
        return Ok(CaseOut::new(nt && j.compared, h.0).class(class));
    }
    let mut out = CaseOut::new(j.compared, h.0).class(name.to_string());
    if j.unspecified.is_some() {
        out = out.class("unspecified");
    }
    Ok(out)
}
fn case_json(name: &str, s: &StateSpec) -> Value {
    json!({"instruction": name, "state": s.to_json(), "brief": s.brief()})
}

/// enumerated: element-wise names x len(second) 0..8 x len(top) 0..8 x offset -10..10, random values
fn grid(ctx: &Ctx, draws: u64) -> SubReport {
    let reg = crate::exec::registry_names();
    let names: Vec<&str> = ELEMENTWISE.iter().cloned().filter(|n| reg.iter().any(|r| r == n)).collect();
    let mut cells = vec![];
    for n in &names {
        for l1 in 0..=8usize {
            for l0 in 0..=8usize {
                if *n == "BOOLVECTOR.NOT" && l1 != 0 {
                    continue;
                }
                for o in -10i32..=10 {
                    cells.push((n.to_string(), l1, l0, o));
                }
                for o in [i32::MIN, i32::MIN + 1, i32::MAX, i32::MAX - 7, 1 << 20, -(1 << 20)] {
                    cells.push((n.to_string(), l1, l0, o));
                }
            }
        }
    }
    // long vectors: lengths around 16 / 32 / 64 and 100 with offsets that leave overlaps of every
    // size class (block-wise processing usually switches on at such lengths)
    let small_cells = cells.len();
    for n in &names {
        if *n == "BOOLVECTOR.NOT" {
            continue;
        }
        for l1 in [12usize, 16, 17, 31, 33, 64, 100] {
            for l0 in [12usize, 16, 17, 31, 33, 64, 100] {
                for o in [-70i32, -33, -17, -16, -8, -3, -1, 0, 1, 3, 8, 16, 17, 33, 70] {
                    cells.push((n.to_string(), l1, l0, o));
                }
            }
        }
    }
    let n = cells.len() as u64;
    let mut rep = par_map(ctx, "length-offset-grid", n, |ci, rep| {
        let (name, l1, l0, o) = cells[ci as usize].clone();
        let mut r = det_runner(derive_seed(ctx.seed, &["C09", "grid"], ci, 0));
        let draws = if (ci as usize) < small_cells { draws } else { (draws / 4).max(2) };
        for _ in 0..draws {
            let mut s = StateSpec::default();
            s.ints = vec![o, 5];
            s.bools = vec![true];
            match name.split('.').next().unwrap() {
                "BOOLVECTOR" => {
                    let a = draw(&prop::collection::vec(any::<bool>(), l0), &mut r);
                    if name == "BOOLVECTOR.NOT" {
                        s.bvecs = vec![a, vec![true]];
                    } else {
                        let b = draw(&prop::collection::vec(any::<bool>(), l1), &mut r);
                        s.bvecs = vec![a, b, vec![false, true]];
                    }
                }
                "INTVECTOR" => {
                    let a = draw(&prop::collection::vec(gen::int_pool(), l0), &mut r);
                    let b = draw(&prop::collection::vec(gen::int_pool(), l1), &mut r);
                    s.ivecs = vec![a, b, vec![9]];
                }
                _ => {
                    let a = draw(&prop::collection::vec(gen::float_pool(), l0), &mut r);
                    let b = draw(&prop::collection::vec(gen::float_pool(), l1), &mut r);
                    s.fvecs = vec![a, b, vec![0.5]];
                }
            }
            rep.evaluations += 1;
            match judge(&name, &s) {
                Ok(out) => {
                    if out.nontrivial {
                        rep.nontrivial_extra += 1;
                    }
                    for c in out.class {
                        *rep.classes.entry(c).or_insert(0) += 1;
                    }
                    if ci % 1999 == 0 {
                        rep.sample(case_json(&name, &s));
                    }
                }
                Err(f) => rep.fail(ctx, f, case_json(&name, &s)),
            }
        }
    });
    rep.exhaustive = true;
    rep.notes.push(format!("{} cells: element-wise names x len(second) 0..8 x len(top) 0..8 x offsets -10..10 and 6 extreme offsets, {} random element draws per cell (the length x offset grid is complete, element values are sampled); plus lengths {{12,16,17,31,33,64,100}}^2 x 15 offsets in -70..70 with {} draws per cell", n, draws, (draws / 4).max(2)));
    rep
}

fn random_strategy() -> BoxedStrategy<(String, StateSpec)> {
    let mut p = gen::StateParams::full(vec!["NOOP".into()]);
    p.max_depth = 3;
    p.tree_depth = 2;
    p.tree_size = 5;
    p.graphs = false;
    let base = state_for_any(names(), &p);
    // index-like INTEGER operands around the vector length, size operands small
    (base, gen::index_around(6), 0u8..4)
        .prop_map(|((name, mut s), idx, mode)| {
            let fp = footprint::get(&name).unwrap();
            let uses_int = fp.need.iter().any(|(c, _)| *c == "INTEGER");
            if uses_int && mode > 0 && !s.ints.is_empty() {
                let is_size = fp.size_at.is_some() || name == "INTVECTOR.FROMINT";
                if is_size {
                    // sizes: keep inside the resource envelope (C15 covers magnitudes)
                    let v = s.ints[0];
                    s.ints[0] = if v > 64 { v % 64 } else { v };
                } else {
                    s.ints[0] = idx;
                }
            } else if fp.size_at.is_some() && !s.ints.is_empty() && s.ints[0] > 4096 {
                s.ints[0] = 4096;
            }
            (name, s)
        })
        .boxed()
}

pub fn run(ctx: &Ctx) -> PropReport {
    let mut rep = PropReport::new(
        "every registered BOOLVECTOR/INTVECTOR/FLOATVECTOR instruction owned by C09 (footprint table) x vector pairs of independently drawn lengths x offsets/indices x element pools (i32 bounds, NaN, inf); non-trivial = (element-wise) both vectors non-empty with a partial overlap or unequal lengths, (others) all operands present and the value compared; distinct = (instruction, state) digest",
        "REF per README and instruction comment on the whole snapshot: the top vector shifted by the offset is combined into the second on the overlap only (indices computed in i64), result has the second's length; GET/SET clamp; aggregates exact for ints, 1e-5 relative for floats; each name must satisfy its own reference, so a mis-registered name shows up as a mismatch of that name.",
    );
    rep.assumptions.push("size operands (ONES/ZEROS/SINE/FROMINT) are kept <= 4096 here; magnitudes are C15's subject".into());
    rep.assumptions.push("unspecified and therefore not value-compared: MEAN of an empty vector, ONES/ZEROS 0, SET without value, float aggregates at the f32 range boundary, SINE with non-finite/huge parameters".into());
    rep.push(grid(ctx, ctx.tier.pick(10, 60)));
    rep.push(run_sharded(ctx, "random", ctx.tier.pick(400_000, 5_000_000), random_strategy, |(n, s): &(String, StateSpec)| judge(n, s), |(n, s)| case_json(n, s)));
    rep.extra.insert("instructions".into(), json!(names()));
    for r in crate::props::incontext::run_all(ctx, ctx.tier.pick(40_000, 600_000)) {
        rep.push(r);
    }
    rep
}

pub fn replay(_ctx: &Ctx, _sub: &str, case: &Value) -> Result<(), Fail> {
    let bad = || Fail::new("replay-format", "cannot decode C09 case");
    let name = case.get("instruction").and_then(|x| x.as_str()).ok_or_else(bad)?;
    let s = StateSpec::from_json(case.get("state").ok_or_else(bad)?).ok_or_else(bad)?;
    judge(name, &s).map(|_| ())
}
