//! C19 — LIST records move items between stacks without loss, duplication or reordering.

use crate::engine::*;
use crate::gen;
use crate::lockstep::lockstep;
use crate::single::*;
use crate::spec::*;
use proptest::prelude::*;
use serde_json::{json, Value};
use std::collections::BTreeSet;

const LIST_NAMES: [&str; 7] = ["LIST.ADD", "LIST.SET", "LIST.GET", "LIST.REMOVE", "LIST.BVAL", "LIST.IVAL", "LIST.FVAL"];
const ID_NAMES: [&str; 9] = ["BOOLEAN.ID", "BOOLVECTOR.ID", "CODE.ID", "EXEC.ID", "FLOAT.ID", "FLOATVECTOR.ID", "INTEGER.ID", "INTVECTOR.ID", "NAME.ID"];

fn id_vector() -> BoxedStrategy<Vec<i32>> {
    let id = prop_oneof![10 => prop::sample::select(vec![1, 2, 3, 4, 5, 6, 9, 10, 11]), 2 => prop::sample::select(vec![7, 8, 12]), 2 => prop::sample::select(vec![0, -1, 13, i32::MAX, i32::MIN])];
    prop::collection::vec(id, 0..=8).boxed()
}

/// labelled typed stacks (depth 0..4) so that loss / duplication / reordering is observable
fn labelled_state() -> BoxedStrategy<StateSpec> {
    let rec_atom = prop_oneof![3 => (0i32..50).prop_map(ItemSpec::Int), 2 => any::<bool>().prop_map(ItemSpec::Bool), 2 => (0i32..40).prop_map(|x| ItemSpec::Float(x as f32 + 0.5)), 1 => prop::sample::select(vec![f32::INFINITY, f32::NEG_INFINITY, f32::NAN, -0.0, f32::MAX]).prop_map(ItemSpec::Float), 1 => (0usize..4, 0usize..6).prop_map(|(c, d)| ItemSpec::Index(c, d)), 1 => gen::ivec_small(3).prop_map(ItemSpec::IVec), 1 => gen::name_pool().prop_map(ItemSpec::Name), 1 => Just(ItemSpec::instr("NOOP"))];
    let record = rec_atom.clone().prop_recursive(3, 10, 4, |inner| prop::collection::vec(inner, 0..=4).prop_map(ItemSpec::List));
    let code_item = prop_oneof![4 => prop::collection::vec(record.clone(), 0..=5).prop_map(ItemSpec::List), 1 => rec_atom];
    (
        (prop::collection::vec(any::<bool>(), 0..=4), 0usize..=4, 0usize..=4, 0usize..=4),
        (0usize..=4, 0usize..=4, 0usize..=4),
        prop::collection::vec(code_item.clone(), 0..=5),
        prop::collection::vec(code_item, 0..=3),
        any::<u8>(),
    )
        .prop_map(|((bools, ni, nf, nn), (nbv, niv, nfv), code, exec, salt)| {
            let mut s = StateSpec::default();
            s.bools = bools;
            s.ints = (0..ni).map(|i| 100 + 10 * i as i32 + (salt % 7) as i32).collect();
            // a fifth of the states hold non-finite floats (still distinguishable by position)
            s.floats = (0..nf).map(|i| if salt % 5 == 0 { [f32::INFINITY, f32::NAN, f32::NEG_INFINITY, -0.0][i % 4] } else { 0.25 + i as f32 }).collect();
            s.names = (0..nn).map(|i| format!("nm{}", i)).collect();
            s.bvecs = (0..nbv).map(|i| (0..=i).map(|j| (salt >> j) & 1 == 1).collect()).collect();
            s.ivecs = (0..niv).map(|i| vec![1000 + i as i32; i + 1]).collect();
            s.fvecs = (0..nfv).map(|i| vec![0.5 + i as f32]).collect();
            s.code = code;
            s.exec = exec;
            s
        })
        .boxed()
}

#[derive(Clone, Debug)]
pub struct SCase {
    pub name: String,
    pub state: StateSpec,
}
fn single_strategy() -> BoxedStrategy<SCase> {
    let n_pool = prop::sample::select(vec![-1, 0, 1, 2, 3, 4, 5, 6, i32::MAX, i32::MIN]);
    (prop::sample::select(LIST_NAMES.iter().chain(ID_NAMES.iter()).cloned().collect::<Vec<_>>()), labelled_state(), id_vector(), gen::index_around(5), n_pool, any::<bool>())
        .prop_map(|(name, mut s, ids, pos, n, present)| {
            if present || name == "LIST.ADD" || name == "LIST.SET" {
                match name {
                    "LIST.ADD" => s.ivecs.insert(0, ids),
                    "LIST.SET" => {
                        s.ivecs.insert(0, ids);
                        s.ints.insert(0, pos);
                    }
                    "LIST.GET" | "LIST.REMOVE" => s.ints.insert(0, pos),
                    "LIST.BVAL" | "LIST.IVAL" | "LIST.FVAL" => {
                        s.ints.insert(0, pos);
                        s.ints.insert(0, n);
                    }
                    _ => {}
                }
            }
            SCase { name: name.to_string(), state: s }
        })
        .boxed()
}

fn multiset_all(s: &StateSpec) -> Vec<String> {
    // every atom held anywhere on the nine main stacks (records are opened)
    let mut v: Vec<String> = vec![];
    v.extend(s.bools.iter().map(|x| ItemSpec::Bool(*x).render()));
    v.extend(s.ints.iter().map(|x| ItemSpec::Int(*x).render()));
    v.extend(s.floats.iter().map(|x| ItemSpec::Float(*x).render()));
    v.extend(s.names.iter().cloned());
    v.extend(s.bvecs.iter().map(|x| ItemSpec::BVec(x.clone()).render()));
    v.extend(s.ivecs.iter().map(|x| ItemSpec::IVec(x.clone()).render()));
    v.extend(s.fvecs.iter().map(|x| ItemSpec::FVec(x.clone()).render()));
    for it in s.code.iter().chain(s.exec.iter()) {
        v.extend(it.atoms().into_iter().map(|a| a.render()));
    }
    v.sort();
    v
}

fn judge_single(c: &SCase) -> CaseResult {
    let j = judge_instr("C19", &c.name, &c.state, false)?;
    // INV: LIST.ADD / LIST.GET neither lose nor duplicate items (ADD consumes the id vector)
    if c.name == "LIST.ADD" && j.needs_met {
        let mut before = c.state.clone();
        before.ivecs.remove(0);
        if multiset_all(&before) != multiset_all(&j.after) {
            return Err(Fail::new("C19/LIST.ADD/conservation", format!("atoms before {:?} after {:?}", multiset_all(&before), multiset_all(&j.after))));
        }
    }
    let mut h = Fnv::new();
    h.str(&c.name);
    h.u64(c.state.digest());
    let mut o = CaseOut::new(j.compared && j.needs_met, h.0).class(c.name.clone());
    if j.unspecified.is_some() {
        o = o.class("unspecified-corner");
    }
    Ok(o)
}

/// ADD ; GET ; run: literal-only records come back to their original stacks in their original order
#[derive(Clone, Debug)]
pub struct RtCase {
    pub state: StateSpec,
    pub ids: Vec<i32>,
    pub via_id_instructions: bool,
}
fn rt_strategy() -> BoxedStrategy<RtCase> {
    let lit_ids = prop::collection::vec(prop_oneof![10 => prop::sample::select(vec![1, 2, 5, 6, 9, 10, 11]), 1 => prop::sample::select(vec![7, 8, 12, 0, 13, -1])], 0..=8);
    (labelled_state(), lit_ids, any::<bool>())
        .prop_map(|(mut s, ids, via)| {
            s.exec.clear();
            RtCase { state: s, ids, via_id_instructions: via }
        })
        .boxed()
}
fn id_instr(id: i32) -> Option<&'static str> {
    Some(match id {
        1 => "BOOLEAN.ID",
        2 => "BOOLVECTOR.ID",
        3 => "CODE.ID",
        4 => "EXEC.ID",
        5 => "FLOAT.ID",
        6 => "FLOATVECTOR.ID",
        9 => "INTEGER.ID",
        10 => "INTVECTOR.ID",
        11 => "NAME.ID",
        _ => return None,
    })
}
fn judge_rt(c: &RtCase) -> CaseResult {
    let mut s = c.state.clone();
    let mut prog: Vec<ItemSpec> = vec![];
    let via = c.via_id_instructions && c.ids.iter().all(|i| id_instr(*i).is_some());
    if via {
        for i in &c.ids {
            prog.push(ItemSpec::instr(id_instr(*i).unwrap()));
        }
        prog.push(ItemSpec::Int(c.ids.len() as i32));
        prog.push(ItemSpec::instr("INTVECTOR.FROMINT"));
    } else {
        prog.push(ItemSpec::IVec(c.ids.clone()));
    }
    prog.push(ItemSpec::instr("LIST.ADD"));
    prog.push(ItemSpec::Int(0));
    prog.push(ItemSpec::instr("LIST.GET"));
    s.exec = vec![ItemSpec::List(prog)];
    let reg: BTreeSet<String> = crate::exec::registry_names().into_iter().collect();
    // lock-step against the reference (every step), then the round-trip relation on the final state
    let r = lockstep("C19", &s, 200, &reg, &|_, _| false)?;
    if !r.finished {
        return Err(Fail::new("C19/roundtrip/does-not-terminate", s.brief()));
    }
    // final state through the real interpreter
    let (mut st, _) = s.build();
    crate::exec::with_machine(|m| {
        for _ in 0..200 {
            if m.step(&mut st) {
                break;
            }
        }
    });
    let fin = StateSpec::snapshot(&st);
    let mut expect = c.state.clone();
    let mut got = fin.clone();
    // the record stays on top of the CODE stack
    if got.code.len() != expect.code.len() + 1 || !got.code[0].is_list() {
        return Err(Fail::new("C19/roundtrip/record-not-in-place", format!("CODE after: [{}]", got.code.iter().map(|x| x.render()).collect::<Vec<_>>().join(" | "))));
    }
    got.code.remove(0);
    expect.exec.clear();
    if let Some(d) = expect.diff(&got) {
        return Err(Fail::new(
            format!("C19/roundtrip/{}", expect.differing_components(&got).first().cloned().unwrap_or("?")),
            format!("ids {:?}: after ADD; GET; run: {} | before: {}", c.ids, d, c.state.brief()),
        ));
    }
    let moved = c.ids.iter().filter(|i| id_instr(**i).is_some()).count();
    let mut h = Fnv::new();
    h.u64(c.state.digest());
    for i in &c.ids {
        h.u64(*i as u32 as u64);
    }
    Ok(CaseOut::new(moved >= 2 && fin.code[0].points() >= 3, h.0).class(if via { "ids-built-by-T.ID" } else { "ids-literal" }))
}

pub fn run(ctx: &Ctx) -> PropReport {
    let mut rep = PropReport::new(
        "stack-id vectors over the 12 ids plus {0,-1,13,i32::MAX,i32::MIN} (length 0..8, repeats), typed stacks of depth 0..4 with labelled values, CODE stacks of depth 0..5 holding nested records and non-records, positions from the index pool, n from {-1,0..6,MAX,MIN}; every LIST.* and T.ID instruction by name; ADD;GET;run round trips with id vectors given literally or built by T.ID + INTVECTOR.FROMINT; non-trivial = operands present and value compared (single), >= 2 items moved into a record of >= 3 points (round trip); distinct = (instruction, state) digest",
        "REF: LIST.ADD pops one item per id in vector order (skipping empty stacks and non-data ids) into one record executing in reverse order of removal; SET replaces / REMOVE deletes exactly the clamped position; BVAL/IVAL/FVAL = n-th value of that type in pre-order from the top or the default; T.ID pushes the constant LIST.ADD maps to stack T; all on the whole snapshot. RT: stacks after ADD;GET;run equal the stacks before (record left on CODE). INV: atom conservation across LIST.ADD.",
    );
    rep.assumptions.push("unspecified: LIST.SET on an empty CODE stack or with an id vector that pops the CODE stack; records containing CODE/EXEC items are not re-executed in the round trip".into());
    rep.push(run_sharded(ctx, "single-instruction", ctx.tier.pick(250_000, 2_000_000), single_strategy, judge_single, |c| json!({"instruction": c.name, "state": c.state.to_json(), "brief": c.state.brief()})));
    rep.push(run_sharded(ctx, "add-get-run-roundtrip", ctx.tier.pick(60_000, 600_000), rt_strategy, judge_rt, |c| json!({"state": c.state.to_json(), "ids": c.ids, "via_id_instructions": c.via_id_instructions, "brief": c.state.brief()})));
    for r in crate::props::incontext::run_all(ctx, ctx.tier.pick(40_000, 600_000)) {
        rep.push(r);
    }
    rep
}

pub fn replay(_ctx: &Ctx, sub: &str, case: &Value) -> Result<(), Fail> {
    let bad = || Fail::new("replay-format", "cannot decode C19 case");
    let s = StateSpec::from_json(case.get("state").ok_or_else(bad)?).ok_or_else(bad)?;
    if sub == "add-get-run-roundtrip" {
        let ids = case.get("ids").and_then(|x| x.as_array()).ok_or_else(bad)?.iter().map(|x| x.as_i64().map(|z| z as i32)).collect::<Option<Vec<_>>>().ok_or_else(bad)?;
        let via = case.get("via_id_instructions").and_then(|x| x.as_bool()).unwrap_or(false);
        return judge_rt(&RtCase { state: s, ids, via_id_instructions: via }).map(|_| ());
    }
    let name = case.get("instruction").and_then(|x| x.as_str()).ok_or_else(bad)?;
    judge_single(&SCase { name: name.to_string(), state: s }).map(|_| ())
}
