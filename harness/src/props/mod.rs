use crate::engine::*;
use serde_json::Value;

pub mod incontext;
pub mod related;
pub mod c01;
pub mod c02;
pub mod c03;
pub mod c04;
pub mod c05;
pub mod c06;
pub mod c07;
pub mod c08;
pub mod c09;
pub mod c10;
pub mod c11;
pub mod c12;
pub mod c13;
pub mod c14;
pub mod c15;
pub mod c16;
pub mod c17;
pub mod c18;
pub mod c19;
pub mod c20;

pub fn run(ctx: &Ctx) -> Option<PropReport> {
    Some(match ctx.prop.as_str() {
        "C01" => c01::run(ctx),
        "C02" => c02::run(ctx),
        "C03" => c03::run(ctx),
        "C04" => c04::run(ctx),
        "C05" => c05::run(ctx),
        "C06" => c06::run(ctx),
        "C07" => c07::run(ctx),
        "C08" => c08::run(ctx),
        "C09" => c09::run(ctx),
        "C10" => c10::run(ctx),
        "C11" => c11::run(ctx),
        "C12" => c12::run(ctx),
        "C13" => c13::run(ctx),
        "C14" => c14::run(ctx),
        "C15" => c15::run(ctx),
        "C16" => c16::run(ctx),
        "C17" => c17::run(ctx),
        "C18" => c18::run(ctx),
        "C19" => c19::run(ctx),
        "C20" => c20::run(ctx),
        _ => return None,
    })
}

pub fn replay(ctx: &Ctx, sub: &str, case: &Value) -> Result<(), Fail> {
    if sub == "in-program-context" || sub == "in-program-context-focused" {
        return incontext::replay(ctx, case);
    }
    if sub == "related-calls" {
        return related::replay(ctx, case);
    }
    match ctx.prop.as_str() {
        "C01" => c01::replay(ctx, sub, case),
        "C02" => c02::replay(ctx, sub, case),
        "C03" => c03::replay(ctx, sub, case),
        "C04" => c04::replay(ctx, sub, case),
        "C05" => c05::replay(ctx, sub, case),
        "C06" => c06::replay(ctx, sub, case),
        "C07" => c07::replay(ctx, sub, case),
        "C08" => c08::replay(ctx, sub, case),
        "C09" => c09::replay(ctx, sub, case),
        "C10" => c10::replay(ctx, sub, case),
        "C11" => c11::replay(ctx, sub, case),
        "C12" => c12::replay(ctx, sub, case),
        "C13" => c13::replay(ctx, sub, case),
        "C14" => c14::replay(ctx, sub, case),
        "C15" => c15::replay(ctx, sub, case),
        "C16" => c16::replay(ctx, sub, case),
        "C17" => c17::replay(ctx, sub, case),
        "C18" => c18::replay(ctx, sub, case),
        "C19" => c19::replay(ctx, sub, case),
        "C20" => c20::replay(ctx, sub, case),
        _ => Err(Fail::new("replay-unsupported", "no replay for this property")),
    }
}

/// Deterministic probe of one listed known finding: Some(true) if it still reproduces.
pub fn probe_known(ctx: &Ctx, key: &str) -> Option<bool> {
    let _ = ctx;
    if key.starts_with("C04/") {
        return c04::probe_known(key);
    }
    if key.starts_with("C03/") {
        return c03::probe_known(key);
    }
    if key.starts_with("C15/") {
        return c15::probe_known(key);
    }
    if key.starts_with("C06/") {
        return c06::probe_known(key);
    }
    None
}

/// Second leg of a build-profile differential (run by the release binary).
pub fn leg(prop: &str, seed: u64, n: u64, rest: &[String]) {
    match prop {
        "C04" => c04::leg(seed, n),
        "C14" => c14::leg(seed, n, rest.iter().any(|a| a == "reverse")),
        _ => {}
    }
}

/// Crash-only execution of journalled cases that are neither "instr" nor "program".
pub fn exec_custom_journal(v: &Value) -> Result<(), String> {
    match v.get("kind").and_then(|x| x.as_str()).unwrap_or("") {
        "c06-closed" => c06::exec_journalled(v),
        "c13" => c13::exec_journalled(v),
        "c03-deep" => c03::exec_deep(v),
        "c20" => c20::exec_journalled(v),
        "c01-io" => c01::exec_journalled_io(v),
        _ => Err("unknown journal kind".into()),
    }
}
