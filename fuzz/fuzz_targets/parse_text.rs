#![no_main]
//! libFuzzer target for C03 (T): parsing any byte string (as lossy UTF-8) never crashes and
//! touches no stack other than EXEC.
use libfuzzer_sys::fuzz_target;
use pushr::push::instructions::InstructionSet;
use pushr::push::parser::PushParser;
use pushr::push::state::PushState;

fn fingerprint(s: &PushState) -> String {
    format!(
        "{}|{}|{}|{}|{}|{}|{}|{}|{}|{}|{}|{}|{}|{}",
        s.bool_stack.to_string(),
        s.int_stack.to_string(),
        s.float_stack.to_string(),
        s.name_stack.to_string(),
        s.code_stack.to_string(),
        s.bool_vector_stack.to_string(),
        s.int_vector_stack.to_string(),
        s.float_vector_stack.to_string(),
        s.index_stack.to_string(),
        s.input_stack.size(),
        s.output_stack.size(),
        s.graph_stack.size(),
        s.name_bindings.len(),
        s.quote_name
    )
}

thread_local! {
    // building the registry (280 boxed closures) once per thread, not once per input
    static ISET: InstructionSet = {
        let mut i = InstructionSet::new();
        i.load();
        i
    };
}

fuzz_target!(|data: &[u8]| {
    let text = String::from_utf8_lossy(data);
    ISET.with(|iset| run_one(&text, iset));
});

fn run_one(text: &str, iset: &InstructionSet) {
    let mut st = PushState::new();
    st.int_stack.push(7);
    st.float_stack.push(1.5);
    st.name_stack.push("n".to_string());
    st.bool_stack.push(true);
    let before = fingerprint(&st);
    PushParser::parse_program(&mut st, iset, text);
    assert_eq!(before, fingerprint(&st), "parsing touched a stack other than EXEC");
}
