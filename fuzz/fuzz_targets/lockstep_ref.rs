#![no_main]
#![allow(dead_code, unused_imports)]
//! libFuzzer target with a semantic oracle: bytes -> (initial stacks, program tree over the
//! RAND-free registry) -> executed step by step in lock-step with the harness's reference
//! interpreter (the very modules of /verif/harness, included by path). A mismatch at an
//! instruction owned by $PV_OWNER (footprint table; all owners when unset) aborts the target;
//! panics of pushr itself are the subject of the exec_program target and tolerated here.
#[path = "../../harness/src/engine.rs"]
mod engine;
#[path = "../../harness/src/envelope.rs"]
mod envelope;
#[path = "../../harness/src/exec.rs"]
mod exec;
#[path = "../../harness/src/footprint.rs"]
mod footprint;
#[path = "../../harness/src/lockstep.rs"]
mod lockstep;
#[path = "../../harness/src/refmodel.rs"]
mod refmodel;
#[path = "../../harness/src/refmodel2.rs"]
mod refmodel2;
#[path = "../../harness/src/spec.rs"]
mod spec;
/// the journal of the supervising parent does not exist here
mod supervise {
    use crate::spec::StateSpec;
    pub fn journal_clear() {}
    pub fn journal_program(_prop: &str, _s: &StateSpec, _max_steps: usize, _mode: &str) {}
    pub fn journal_instr(_prop: &str, _name: &str, _s: &StateSpec) {}
    pub fn journal_value(_v: &serde_json::Value) {}
}

use arbitrary::Unstructured;
use libfuzzer_sys::fuzz_target;
use spec::{ItemSpec, StateSpec};
use std::collections::BTreeSet;

const INTS: [i32; 14] = [i32::MIN, -65536, -3, -2, -1, 0, 1, 2, 3, 5, 8, 65536, i32::MAX - 1, i32::MAX];
const FLOATS: [f32; 12] = [0.0, -0.0, 1.0, -1.5, 0.5, 0.001, 2.5, 1e30, f32::MAX, f32::INFINITY, f32::NEG_INFINITY, f32::NAN];
const NAMES: [&str; 5] = ["a", "b", "foo", "k9", "x1"];

fn item(u: &mut Unstructured, names: &[String], depth: u32) -> arbitrary::Result<ItemSpec> {
    let k = u.int_in_range(0..=13)?;
    Ok(match k {
        0 | 1 if depth < 4 => {
            let n = u.int_in_range(0..=5)?;
            let mut v = vec![];
            for _ in 0..n {
                v.push(item(u, names, depth + 1)?);
            }
            ItemSpec::List(v)
        }
        2 => ItemSpec::Int(*u.choose(&INTS)?),
        3 => ItemSpec::Int(u.int_in_range(-12..=12)?),
        4 => ItemSpec::Float(*u.choose(&FLOATS)?),
        5 => ItemSpec::Bool(u.arbitrary()?),
        6 => ItemSpec::Name(u.choose(&NAMES)?.to_string()),
        7 => {
            let n = u.int_in_range(0..=4)?;
            ItemSpec::IVec((0..n).map(|_| u.choose(&INTS).map(|x| *x)).collect::<arbitrary::Result<Vec<_>>>()?)
        }
        8 => {
            let n = u.int_in_range(0..=4)?;
            ItemSpec::FVec((0..n).map(|_| u.choose(&FLOATS).map(|x| *x)).collect::<arbitrary::Result<Vec<_>>>()?)
        }
        9 => {
            let n = u.int_in_range(0..=4)?;
            ItemSpec::BVec((0..n).map(|_| u.arbitrary()).collect::<arbitrary::Result<Vec<bool>>>()?)
        }
        _ => ItemSpec::Instr(u.choose(names)?.clone()),
    })
}

thread_local! {
    static SETUP: (Vec<String>, BTreeSet<String>, Option<String>) = {
        exec::silence_stdout_of_pushr();
        let all = exec::registry_names();
        let names: Vec<String> = all
            .iter()
            .filter(|n| !n.ends_with(".RAND") && *n != "NAME.RANDBOUNDNAME" && *n != "GRAPH.NODE*ADD" && *n != "EXEC.CMD" && !exec::USER_INSTRUCTIONS.contains(&n.as_str()))
            .cloned()
            .collect();
        (names, all.into_iter().collect(), std::env::var("PV_OWNER").ok().filter(|s| !s.is_empty()))
    };
}

fn decode(u: &mut Unstructured, names: &[String]) -> arbitrary::Result<StateSpec> {
    let mut s = StateSpec::default();
    for _ in 0..u.int_in_range(0..=4)? {
        s.ints.push(*u.choose(&INTS)?);
    }
    for _ in 0..u.int_in_range(0..=3)? {
        s.floats.push(*u.choose(&FLOATS)?);
    }
    for _ in 0..u.int_in_range(0..=2)? {
        s.bools.push(u.arbitrary()?);
    }
    for _ in 0..u.int_in_range(0..=2)? {
        s.names.push(u.choose(&NAMES)?.to_string());
    }
    for _ in 0..u.int_in_range(0..=2)? {
        let t = item(u, names, 1)?;
        s.code.push(t);
    }
    for _ in 0..u.int_in_range(0..=2)? {
        let k = u.choose(&NAMES)?.to_string();
        let t = item(u, names, 2)?;
        s.bindings.insert(k, t);
    }
    let n = u.int_in_range(1..=12)?;
    let mut prog = vec![];
    for _ in 0..n {
        prog.push(item(u, names, 0)?);
    }
    s.exec = vec![ItemSpec::List(prog)];
    Ok(s)
}

fuzz_target!(|data: &[u8]| {
    SETUP.with(|(names, reg, owner)| {
        let mut u = Unstructured::new(data);
        let s = match decode(&mut u, names) {
            Ok(s) => s,
            Err(_) => return,
        };
        let skip = |n: &str, before: &StateSpec| lockstep::context_skip(n, before);
        if let Err(f) = lockstep::lockstep_opts("FZ", &s, 200, reg, &skip, true) {
            if f.signature.contains("/panic@") {
                return;
            }
            let label = f.signature.split('/').nth(1).unwrap_or("").to_string();
            let who = lockstep::owner_of(&label);
            if owner.as_ref().map(|o| *o == who).unwrap_or(true) {
                exec::say(&format!("LOCKSTEP-MISMATCH owner={} {} :: {}", who, f.signature, f.detail));
                panic!("LOCKSTEP-MISMATCH owner={} {} :: {}", who, f.signature, f.detail);
            }
        }
    });
});
