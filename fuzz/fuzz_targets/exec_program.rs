#![no_main]
//! libFuzzer target for C01: bytes -> (initial stacks, program tree over the full registry) ->
//! envelope-monitored single stepping; any panic is a finding.
use arbitrary::Unstructured;
use libfuzzer_sys::fuzz_target;
use pushr::push::instructions::{Instruction, InstructionCache, InstructionSet};
use pushr::push::interpreter::PushInterpreter;
use pushr::push::item::Item;
use pushr::push::state::PushState;
use pushr::push::vector::{BoolVector, FloatVector, IntVector};

const INTS: [i32; 12] = [i32::MIN, -65536, -2, -1, 0, 1, 2, 3, 8, 65536, i32::MAX - 1, i32::MAX];
const FLOATS: [f32; 10] = [0.0, -0.0, 1.0, -1.5, 0.001, 1e30, f32::MAX, f32::INFINITY, f32::NEG_INFINITY, f32::NAN];
/// instructions with a size-like INTEGER operand (position): the resource envelope clamps it
const SIZE_OPS: [(&str, usize); 18] = [
    ("BOOLVECTOR.ONES", 0), ("BOOLVECTOR.ZEROS", 0), ("BOOLVECTOR.RAND", 0), ("INTVECTOR.ONES", 0), ("INTVECTOR.ZEROS", 0), ("INTVECTOR.RAND", 0),
    ("FLOATVECTOR.ONES", 0), ("FLOATVECTOR.ZEROS", 0), ("FLOATVECTOR.RAND", 0), ("FLOATVECTOR.SINE", 0), ("LIST.NEIGHBOR*IDS", 0), ("LIST.NEIGHBOR*BVALS", 1),
    ("LIST.NEIGHBOR*IVALS", 1), ("LIST.NEIGHBOR*FVALS", 1), ("CODE.RAND", 0), ("INTVECTOR.FROMINT", 0), ("EXEC.CMD", 0), ("INDEX.DEFINE", 0),
];

fn cmd_stub(st: &mut PushState, _c: &InstructionCache) {
    // EXEC.CMD without the spawn: documented stack effect only
    if let Some(n) = st.int_stack.pop() {
        if n > -1 {
            let _ = st.name_stack.pop_vec((n as usize).saturating_add(1));
        }
    }
}

fn item(u: &mut Unstructured, names: &[String], depth: u32) -> arbitrary::Result<Item> {
    let k = u.int_in_range(0..=11)?;
    Ok(match k {
        0 | 1 if depth < 5 => {
            let n = u.int_in_range(0..=5)?;
            let mut v = vec![];
            for _ in 0..n {
                v.push(item(u, names, depth + 1)?);
            }
            Item::list(v)
        }
        2 => Item::int(*u.choose(&INTS)?),
        3 => Item::int(u.int_in_range(-12..=12)?),
        4 => Item::float(*u.choose(&FLOATS)?),
        5 => Item::bool(u.arbitrary()?),
        6 => Item::name(u.choose(&["a", "b", "foo"])?.to_string()),
        7 => {
            let n = u.int_in_range(0..=4)?;
            Item::intvec(IntVector::new((0..n).map(|_| u.choose(&INTS).map(|x| *x)).collect::<arbitrary::Result<Vec<_>>>()?))
        }
        8 => {
            let n = u.int_in_range(0..=4)?;
            Item::floatvec(FloatVector::new((0..n).map(|_| u.choose(&FLOATS).map(|x| *x)).collect::<arbitrary::Result<Vec<_>>>()?))
        }
        9 => {
            let n = u.int_in_range(0..=4)?;
            Item::boolvec(BoolVector::new((0..n).map(|_| u.arbitrary()).collect::<arbitrary::Result<Vec<bool>>>()?))
        }
        _ => Item::instruction(u.choose(names)?.clone()),
    })
}

fn too_big(st: &PushState) -> bool {
    let mut pts = 0;
    for i in 0..st.exec_stack.size() {
        pts += Item::size(st.exec_stack.get(i).unwrap());
    }
    for i in 0..st.code_stack.size() {
        pts += Item::size(st.code_stack.get(i).unwrap());
    }
    let mut cells = st.size();
    for i in 0..st.int_vector_stack.size() {
        cells += st.int_vector_stack.get(i).unwrap().values.len();
    }
    for i in 0..st.float_vector_stack.size() {
        cells += st.float_vector_stack.get(i).unwrap().values.len();
    }
    for i in 0..st.bool_vector_stack.size() {
        cells += st.bool_vector_stack.get(i).unwrap().values.len();
    }
    for i in 0..st.name_stack.size() {
        cells += st.name_stack.get(i).unwrap().len() / 8;
    }
    pts > 20_000 || cells > 200_000
}

thread_local! {
    static ISET: std::cell::RefCell<(InstructionSet, InstructionCache, Vec<String>)> = {
        let mut iset = InstructionSet::new();
        iset.load();
        iset.add("EXEC.CMD".to_string(), Instruction::new(cmd_stub));
        let cache = iset.cache();
        let mut names = cache.list.clone();
        names.sort();
        std::cell::RefCell::new((iset, cache, names))
    };
}

fuzz_target!(|data: &[u8]| {
    ISET.with(|c| {
        let mut g = c.borrow_mut();
        let (iset, cache, names) = &mut *g;
        run_one(data, iset, cache, names);
    });
});

fn run_one(data: &[u8], iset: &mut InstructionSet, cache: &InstructionCache, names: &Vec<String>) {
    let mut u = Unstructured::new(data);
    let mut st = PushState::new();
    let run = |u: &mut Unstructured, st: &mut PushState| -> arbitrary::Result<()> {
        for _ in 0..u.int_in_range(0..=4)? {
            st.int_stack.push(*u.choose(&INTS)?);
        }
        for _ in 0..u.int_in_range(0..=3)? {
            st.float_stack.push(*u.choose(&FLOATS)?);
        }
        for _ in 0..u.int_in_range(0..=2)? {
            st.bool_stack.push(u.arbitrary()?);
        }
        for _ in 0..u.int_in_range(0..=2)? {
            st.name_stack.push(u.choose(&["a", "b"])?.to_string());
        }
        let n = u.int_in_range(1..=12)?;
        let mut prog = vec![];
        for _ in 0..n {
            prog.push(item(u, names, 0)?);
        }
        st.exec_stack.push(Item::list(prog));
        Ok(())
    };
    if run(&mut u, &mut st).is_err() {
        return;
    }
    for _ in 0..300 {
        // resource envelope: clamp size operands, stop runaway states
        if let Some(Item::InstructionMeta { name }) = st.exec_stack.get(0) {
            if let Some((_, pos)) = SIZE_OPS.iter().find(|(n, _)| n == name) {
                if let Some(v) = st.int_stack.get_mut(*pos) {
                    if *v > 4096 {
                        *v = 4096;
                    }
                }
            }
        }
        if PushInterpreter::step(&mut st, iset, cache) {
            break;
        }
        if too_big(&st) {
            break;
        }
    }
}
