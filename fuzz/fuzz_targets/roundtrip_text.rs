#![no_main]
//! libFuzzer target for C11: any text s; t = parse(s). When t lies in the property's tree
//! language (lists, integers, booleans, names, instructions) then parse(print(t)) must equal t
//! structurally (Item::equals item by item, same number of items); when it also holds floats,
//! print(parse(print(t))) must equal print(t). Texts whose tree holds a vector literal are
//! outside the property (vectors print without their type).
use libfuzzer_sys::fuzz_target;
use pushr::push::instructions::InstructionSet;
use pushr::push::item::{Item, PushType};
use pushr::push::parser::PushParser;
use pushr::push::state::PushState;

thread_local! {
    static ISET: InstructionSet = {
        let mut i = InstructionSet::new();
        i.load();
        i
    };
}

#[derive(PartialEq, PartialOrd, Clone, Copy)]
enum Lang {
    Plain,
    WithFloats,
    Outside,
}

fn lang(it: &Item) -> Lang {
    match it {
        Item::List { items } => {
            let mut l = Lang::Plain;
            for i in 0..items.size() {
                let k = lang(items.get(i).unwrap());
                if k > l {
                    l = k;
                }
            }
            l
        }
        Item::Literal { push_type } => match push_type {
            PushType::Int { .. } | PushType::Bool { .. } => Lang::Plain,
            PushType::Float { .. } => Lang::WithFloats,
            _ => Lang::Outside,
        },
        _ => Lang::Plain,
    }
}

fuzz_target!(|data: &[u8]| {
    let text = String::from_utf8_lossy(data);
    ISET.with(|iset| run_one(&text, iset));
});

fn run_one(text: &str, iset: &InstructionSet) {
    let mut st = PushState::new();
    PushParser::parse_program(&mut st, iset, text);
    let n = st.exec_stack.size();
    let mut l = Lang::Plain;
    for i in 0..n {
        let k = lang(st.exec_stack.get(i).unwrap());
        if k > l {
            l = k;
        }
    }
    if l == Lang::Outside || n == 0 {
        return;
    }
    let p1 = st.exec_stack.to_string();
    let mut st2 = PushState::new();
    PushParser::parse_program(&mut st2, iset, &p1);
    if l == Lang::Plain {
        assert_eq!(st2.exec_stack.size(), n, "ROUNDTRIP item count: text {:?} printed {:?}", text, p1);
        for i in 0..n {
            let (a, b) = (st.exec_stack.get(i).unwrap(), st2.exec_stack.get(i).unwrap());
            assert!(Item::equals(a, b), "ROUNDTRIP item {} differs: text {:?} printed {:?} reparsed {:?}", i, text, p1, st2.exec_stack.to_string());
        }
    }
    let p2 = st2.exec_stack.to_string();
    assert_eq!(p1, p2, "ROUNDTRIP reprint differs: text {:?}", text);
}
